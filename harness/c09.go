package main

// C09: N searcher goroutines against a stream of write batches on a file-backed
// shard with a shared cache. One child process per run, so that a crash or a
// hang of semadb is an observation.

import (
	"context"
	"fmt"
	"os"
	"os/exec"
	"path/filepath"
	"strings"
	"sync"
	"sync/atomic"
	"time"

	"github.com/semafind/semadb/shard"
	"github.com/semafind/semadb/shard/cache"
)

func init() { subcmds["c09"] = runC09 }

type c09search struct {
	req    requestSpec
	v0, v1 int64
	out    string
}

func searchErrKind(err error) int {
	s := err.Error()
	switch {
	case strings.Contains(s, "does not exist"):
		return 1
	case (strings.Contains(s, "search: failed to get") || strings.Contains(s, "failed to iterate over points")) && strings.HasSuffix(s, ": not found"):
		return 5 // the index search (graph walk or flat scan) read a node / vector as absent (ItemCache ErrNotFound)
	case strings.Contains(s, "transaction has ended"), strings.Contains(s, "tx closed"), strings.Contains(s, "already finished"):
		return 2
	}
	return 3
}

// runC09Child executes one concurrent run and prints a single `C <term>` line.
func runC09Child(a childArgs) error {
	if a.cfg == 10 {
		return runC09Forced(a)
	}
	g := newGen("c09", a.seed, a.idx)
	env, err := openEnv(a.cfg, g.schema, g.maxSize)
	if err != nil {
		return err
	}
	defer env.close()
	r := g.r
	nsearchers := 3 + r.IntN(6)
	nbatches := 6 + r.IntN(8)
	// warm-up batch so that searches have something to find; cache state: cold / partially warm / warm
	var started, completed atomic.Int64
	type bo struct{ b batchSpec; out string }
	var batches []bo
	apply := func(step int) error {
		b := g.genBatch(step)
		started.Add(1)
		out, okIds, ok, err := execBatch(env.sh, b)
		completed.Add(1)
		if err != nil {
			return err
		}
		if ok {
			g.noteApplied(b, okIds)
		}
		batches = append(batches, bo{b, out})
		return nil
	}
	if err := apply(0); err != nil {
		return err
	}
	warm := a.idx % 3
	if warm > 0 { // partially warm / warm: run a few searches first
		_, docs, _ := readAll(env.sh, g.pool)
		for _, rq := range g.genRequests(0, docs) {
			env.sh.SearchPoints(rq.model())
			if warm == 1 {
				break
			}
		}
	}
	// pre-generate the search requests of every searcher (generation is not thread safe)
	_, docs0, _ := readAll(env.sh, g.pool)
	reqs := make([][]requestSpec, nsearchers)
	for i := range reqs {
		for len(reqs[i]) < 12 {
			for _, rq := range g.genRequests(1, docs0) {
				rq.sel = []string{"*"}
				reqs[i] = append(reqs[i], rq)
			}
		}
	}
	var mu sync.Mutex
	var searches []c09search
	var errTexts []string
	var wg sync.WaitGroup
	stop := make(chan struct{})
	for i := 0; i < nsearchers; i++ {
		wg.Add(1)
		go func(i int) {
			defer wg.Done()
			for k := 0; ; k++ {
				select {
				case <-stop:
					return
				default:
				}
				rq := reqs[i][k%len(reqs[i])]
				v0 := completed.Load()
				res, err := env.sh.SearchPoints(rq.model())
				v1 := started.Load()
				var o string
				if err != nil {
					o = fmt.Sprintf("(QError %d)", searchErrKind(err))
					mu.Lock()
					if len(errTexts) < 20 {
						errTexts = append(errTexts, err.Error())
					}
					mu.Unlock()
				} else {
					o, err = pRows(res, true)
					if err != nil {
						o = "(QError 3)"
					}
				}
				mu.Lock()
				if len(searches) < 400 {
					searches = append(searches, c09search{rq, v0, v1, o})
				}
				mu.Unlock()
				if k > 60 {
					time.Sleep(time.Millisecond)
				}
			}
		}(i)
	}
	// one more client keeps asking for the shard's size and point count (what every insert request does per shard)
	wg.Add(1)
	go func() {
		defer wg.Done()
		for {
			select {
			case <-stop:
				return
			default:
			}
			if _, err := env.sh.Info(); err != nil {
				mu.Lock()
				if len(errTexts) < 20 {
					errTexts = append(errTexts, "Info: "+err.Error())
				}
				mu.Unlock()
			}
			time.Sleep(200 * time.Microsecond)
		}
	}()
	var werr error
	for step := 1; step <= nbatches; step++ {
		if err := apply(step); err != nil {
			werr = err
			break
		}
		time.Sleep(time.Duration(r.IntN(3)) * time.Millisecond)
	}
	close(stop)
	wg.Wait()
	if werr != nil {
		return werr
	}
	// final state: warm, then cold after reopening
	warmLive, _, err := readAll(env.sh, g.pool)
	if err != nil {
		warmLive = "[]"
	}
	env.sh.Close()
	env.sh = nil
	sh2, err := shard.NewShard(env.path, env.col, cache.NewManager(-1))
	if err != nil {
		return err
	}
	coldLive, _, err := readAll(sh2, g.pool)
	sh2.Close()
	if err != nil {
		coldLive = "[]"
	}
	bitems := make([]string, len(batches))
	for i, b := range batches {
		bitems[i] = "(" + b.b.coq() + ", " + b.out + ")"
	}
	// keep the case small: every failed search, and a sample of the successful ones
	var sitems []string
	okKept := 0
	for _, s := range searches {
		failed := strings.HasPrefix(s.out, "(QError")
		if !failed {
			if okKept >= 40 {
				continue
			}
			okKept++
		}
		sitems = append(sitems, fmt.Sprintf("(mkCSearch %s %d %d %s)", s.req.coq(), s.v0, s.v1, s.out))
	}
	f, err := os.Create(a.out)
	if err != nil {
		return err
	}
	defer f.Close()
	for _, t := range errTexts {
		fmt.Fprintf(f, "X\t%s\n", strings.ReplaceAll(t, "\n", " "))
	}
	fmt.Fprintf(f, "N\t%d\t%d\t%d\n", nsearchers, len(batches), len(searches))
	fmt.Fprintf(f, "C\t(C09Run %s %d %s\n   %s\n   %s\n   %s 0)\n", g.schema.coq(), g.maxSize, pList(bitems), pList(sitems), warmLive, coldLive)
	return nil
}

func runC09(rc *runCtx) error {
	n := rc.n
	if n == 0 {
		n = 48
		if rc.thorough() {
			n = 1200
		}
	}
	nfiles := 8
	if rc.thorough() {
		nfiles = 32
	}
	scratch, err := os.MkdirTemp("", "verif-c09-")
	if err != nil {
		return err
	}
	defer os.RemoveAll(scratch)
	type res struct {
		idx      int
		term     string
		searches int
		nsearch  int
		errText  string
		searchErrs []string
	}
	// jobs: n stress runs (cfg 0) and n/2 forced-schedule runs (cfg 10)
	type job struct{ idx, cfg int }
	var jobs []job
	for i := 0; i < n; i++ {
		// every other stress run under a finite cache budget (never reached): the manager sizes every registered cache
		// after each request, next to the writers and searchers that fill them
		jobs = append(jobs, job{i, []int{0, 6}[i%2]})
	}
	for i := 0; i < (n+1)/2; i++ {
		jobs = append(jobs, job{i, 10})
	}
	if rc.only != "" {
		var oi, oc int
		fmt.Sscanf(rc.only, "%d:%d", &oi, &oc)
		jobs = []job{{oi, oc}}
	}
	nstress := n
	n = len(jobs)
	results := make([]res, n)
	var wg sync.WaitGroup
	sem := make(chan struct{}, 6) // each run is itself concurrent
	self, _ := os.Executable()
	for i := 0; i < n; i++ {
		wg.Add(1)
		go func(i int) {
			defer wg.Done()
			sem <- struct{}{}
			defer func() { <-sem }()
			out := filepath.Join(scratch, fmt.Sprintf("c09_%d.txt", i))
			ctx, cancel := context.WithTimeout(context.Background(), 60*time.Second)
			defer cancel()
			cmd := exec.CommandContext(ctx, self, "shardrun", "-profile", "c09", "-seed", fmt.Sprint(rc.seed), "-idx", fmt.Sprint(jobs[i].idx), "-cfg", fmt.Sprint(jobs[i].cfg), "-out", out)
			var stderr strings.Builder
			cmd.Stderr = &stderr
			err := cmd.Run()
			data, _ := os.ReadFile(out)
			r := res{idx: i}
			for _, xl := range strings.Split(string(data), "\n") {
				if strings.HasPrefix(xl, "X\t") {
					r.searchErrs = append(r.searchErrs, xl[2:])
				}
			}
			if k := strings.Index(string(data), "N\t"); k > 0 {
				data = data[k:]
			}
			for _, ln := range strings.SplitN(string(data), "\nC\t", 2) {
				if strings.HasPrefix(ln, "N\t") {
					fmt.Sscanf(ln, "N\t%d\t%d\t%d", &r.nsearch, new(int), &r.searches)
				} else if ln != "" {
					r.term = strings.TrimSpace(ln)
				}
			}
			if r.term == "" {
				if ctx.Err() == context.DeadlineExceeded {
					r.term = "(C09Crash 2)"
				} else if err != nil {
					r.term = "(C09Crash 1)"
				}
				r.errText = fmt.Sprintf("run idx=%d cfg=%d: %v: %s", jobs[i].idx, jobs[i].cfg, err, tail(stderr.String(), 1500))
			}
			results[i] = r
		}(i)
	}
	wg.Wait()
	files := make([]*caseFile, nfiles)
	for k := range files {
		cf, err := newCaseFile(filepath.Join(rc.outDir, fmt.Sprintf("cases_C09_%02d.v", k)), []string{"Bytes", "Pack", "Value", "Obs", "Run_C09"}, "c09case")
		if err != nil {
			return err
		}
		files[k] = cf
	}
	hist := map[string]int{}
	errSet := map[string]int{}
	total := 0
	forcedSearches := 0
	_ = nstress
	var crashTexts []string
	for i, r := range results {
		if r.term == "" {
			return fmt.Errorf("run %d produced nothing: %s", i, r.errText)
		}
		files[i%nfiles].Add(r.term)
		if jobs[i].cfg == 10 {
			hist["forced-schedule runs"]++
			forcedSearches += r.searches
		} else {
			hist[fmt.Sprintf("searchers=%d", r.nsearch)]++
		}
		total += r.searches
		if strings.HasPrefix(r.term, "(C09Crash") {
			hist["crashed"]++
			if len(crashTexts) < 3 {
				crashTexts = append(crashTexts, r.errText)
			}
		}
		for _, t := range r.searchErrs {
			errSet[normErr(t)]++
		}
		if i < 2 {
			rc.addSample(map[string]any{"run": i, "searchers": r.nsearch, "concurrent_searches": r.searches})
		}
	}
	for _, cf := range files {
		if err := cf.Close("bad"); err != nil {
			return err
		}
	}
	rc.stats["evaluations"] = n
	rc.stats["distinct"] = n
	rc.stats["histogram"] = hist
	rc.stats["concurrent_searches_observed"] = total - forcedSearches
	rc.stats["forced_schedule_searches"] = forcedSearches
	jl := make([][2]int, len(jobs))
	for i, j := range jobs {
		jl[i] = [2]int{j.idx, j.cfg}
	}
	rc.stats["jobs"] = jl
	var cindex []map[string]any
	for i, j := range jobs {
		cindex = append(cindex, map[string]any{"file": i % nfiles, "pos": i / nfiles, "idx": j.idx, "cfg": j.cfg})
	}
	rc.stats["case_index"] = cindex
	rc.stats["crash_texts"] = crashTexts
	rc.stats["search_error_texts"] = errSet
	rc.stats["seed"] = rc.seed
	return nil
}

func normErr(t string) string {
	out := []rune{}
	for _, c := range t {
		if c >= '0' && c <= '9' {
			c = '#'
		}
		out = append(out, c)
	}
	return string(out)
}
