package main

// C17, slow requests -- "an update reports failed exactly the requested ids that no shard processed; a search
// returns the points of every available shard". With every server up nothing may be reported failed, however long
// the shards take within the RPC timeout. This scenario (one child process: the pause hook is a process global)
// runs a two-server cluster with an RPC timeout of 20 s, fills a collection until a shard lives on the server that
// is not the entry node, and then holds every shard callback (the do:running point of DoWithShard, tag verif) for
// 5.5 s while one update of every stored point and one search for every stored point go through the entry node: the
// node-to-node calls are in flight for more than five seconds on connections that were dialled for them.

import (
	"encoding/json"
	"fmt"
	"os"
	"os/exec"
	"path/filepath"
	"strconv"
	"sync/atomic"
	"time"

	"github.com/google/uuid"
	"github.com/semafind/semadb/cluster"
	"github.com/semafind/semadb/models"
)

func init() { subcmds["c17slowchild"] = runC17SlowChild }

var c17RpcTimeout = 5

type c17SlowResult struct {
	Stored       int    `json:"stored"`
	Shards       int    `json:"shards"`
	RemoteShards int    `json:"remoteShards"`
	HoldMillis   int    `json:"holdMillis"`
	UpdateErr    string `json:"updateErr"`
	UpdateFailed int    `json:"updateFailed"`
	FailedMsg    string `json:"failedMsg"`
	UpdateMillis int64  `json:"updateMillis"`
	SearchErr    string `json:"searchErr"`
	SearchCount  int    `json:"searchCount"`
	SearchMillis int64  `json:"searchMillis"`
}

func runC17SlowChild(rc *runCtx) error {
	c17RpcTimeout = 20
	cl, err := c17Start(2, 4)
	if err != nil {
		return err
	}
	var colp *models.Collection
	defer func() { cl.stop(colp) }()
	user, colId := "slowuser", "col"
	plan := models.UserPlan{Name: "VERIF", MaxCollections: 5, MaxCollectionPointCount: 100000, MaxPointSize: 1 << 20}
	schema := models.IndexSchema{"i": models.IndexSchemaValue{Type: models.IndexTypeInteger}}
	entry := cl.nodes[0]
	if err := entry.CreateCollection(models.Collection{UserId: user, Id: colId, Replicas: 1, Timestamp: 1, CreatedAt: 1, UserPlan: plan, IndexSchema: schema}); err != nil {
		return fmt.Errorf("CreateCollection: %w", err)
	}
	mk := func(k int, v int64) models.Point {
		var id uuid.UUID
		id[0], id[14], id[15] = 0x40, byte(k>>8), byte(k)
		p, _ := pointSpec{id: id, doc: vMap(KV{"i", vInt(v)})}.model()
		return p
	}
	var col models.Collection
	res := c17SlowResult{HoldMillis: 5500}
	for batch := 0; batch < 12; batch++ {
		if col, err = entry.GetCollection(user, colId); err != nil {
			return fmt.Errorf("GetCollection: %w", err)
		}
		colp = &col
		remote := 0
		for _, sid := range col.ShardIds {
			if cl.owner(sid) != 0 {
				remote++
			}
		}
		res.Shards, res.RemoteShards = len(col.ShardIds), remote
		if remote > 0 && len(col.ShardIds) >= 2 {
			break
		}
		var ps []models.Point
		for i := 0; i < 4; i++ {
			ps = append(ps, mk(res.Stored+i, int64(res.Stored+i)))
		}
		failed, err := entry.InsertPoints(col, ps)
		if err != nil || len(failed) > 0 {
			return fmt.Errorf("InsertPoints: %v %v", err, failed)
		}
		res.Stored += len(ps)
	}
	if res.RemoteShards == 0 {
		return fmt.Errorf("no shard on the other server after %d points", res.Stored)
	}
	var armed atomic.Bool
	cluster.VerifPauseHook = func(point string) {
		if point == "do:running" && armed.Load() {
			time.Sleep(time.Duration(res.HoldMillis) * time.Millisecond)
		}
	}
	var ups []models.Point
	var ids []uuid.UUID
	for k := 0; k < res.Stored; k++ {
		p := mk(k, int64(1000+k))
		ups = append(ups, p)
		ids = append(ids, p.Id)
	}
	armed.Store(true)
	t0 := time.Now()
	failed, uerr := entry.UpdatePoints(col, ups)
	res.UpdateMillis = time.Since(t0).Milliseconds()
	if uerr != nil {
		res.UpdateErr = uerr.Error()
	}
	res.UpdateFailed = len(failed)
	if len(failed) > 0 {
		res.FailedMsg = failed[0].Err
	}
	t0 = time.Now()
	sres, serr := c17SafeSearch(entry, col, models.SearchRequest{Query: c17IdAny(ids), Limit: 75})
	armed.Store(false)
	res.SearchMillis = time.Since(t0).Milliseconds()
	if serr != nil {
		res.SearchErr = serr.Error()
	}
	res.SearchCount = len(sres)
	cluster.VerifPauseHook = nil
	b, _ := json.Marshal(res)
	return os.WriteFile(filepath.Join(rc.outDir, "slow.json"), b, 0644)
}

// c17RunSlow spawns the child and returns the CUnexpected term (0: as the theorems say, 9: not)
func c17RunSlow(rc *runCtx) (string, map[string]any, error) {
	exe, err := os.Executable()
	if err != nil {
		return "", nil, err
	}
	dir := filepath.Join(rc.outDir, "slow")
	if err := os.MkdirAll(dir, 0755); err != nil {
		return "", nil, err
	}
	os.Remove(filepath.Join(dir, "slow.json"))
	cmd := exec.Command(exe, "c17slowchild", "-seed", strconv.FormatUint(rc.seed, 10), "-tier", rc.tier, "-out", dir)
	logf, err := os.OpenFile(filepath.Join(dir, "stderr.log"), os.O_CREATE|os.O_WRONLY|os.O_TRUNC, 0644)
	if err != nil {
		return "", nil, err
	}
	cmd.Stderr = logf
	runErr := cmd.Run()
	logf.Close()
	b, err := os.ReadFile(filepath.Join(dir, "slow.json"))
	if err != nil {
		return "", nil, fmt.Errorf("slow-request child left no result (%v); %s", runErr, c12Tail(filepath.Join(dir, "stderr.log")))
	}
	var r c17SlowResult
	if err := json.Unmarshal(b, &r); err != nil {
		return "", nil, err
	}
	ok := r.UpdateErr == "" && r.UpdateFailed == 0 && r.SearchErr == "" && r.SearchCount == r.Stored
	sample := map[string]any{"kind": "slow requests on a healthy cluster", "stored": r.Stored, "shards": r.Shards, "shardsOnTheOtherServer": r.RemoteShards,
		"holdMillis": r.HoldMillis, "updateError": r.UpdateErr, "updateFailed": r.UpdateFailed, "failedMessage": r.FailedMsg, "updateMillis": r.UpdateMillis,
		"searchError": r.SearchErr, "searchReturned": r.SearchCount, "searchMillis": r.SearchMillis}
	if ok {
		return "CUnexpected 0", sample, nil
	}
	return "CUnexpected 9", sample, nil
}
