package main

func init() { subcmds["c02"] = runC02 }

func runC02(rc *runCtx) error {
	n := rc.n
	if n == 0 {
		n = 64
		if rc.thorough() {
			n = 1600
		}
	}
	nfiles := 8
	if rc.thorough() {
		nfiles = 32
	}
	// both storage backends: bbolt (warm cache / reopen) and the in-memory store
	return runHistories(rc, "c02", n, []int{0, 4, 3, 0}, nfiles,
		[]string{"Bytes", "Pack", "Value", "Obs", "Run_C02"}, "hist", "C02")
}
