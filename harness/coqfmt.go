package main

import (
	"bufio"
	"fmt"
	"math/big"
	"os"
	"strconv"
	"strings"
)

// Gallina printers. Numbers are always N or Z literals, byte strings are
// lists of N.

func cN(v uint64) string { return strconv.FormatUint(v, 10) }

func cZ(v int64) string {
	if v < 0 {
		return "(" + strconv.FormatInt(v, 10) + ")%Z"
	}
	return strconv.FormatInt(v, 10) + "%Z"
}

func cBig(v *big.Int) string {
	if v.Sign() < 0 {
		return "(" + v.String() + ")%Z"
	}
	return v.String() + "%Z"
}

func cBool(b bool) string {
	if b {
		return "true"
	}
	return "false"
}

func cBytes(b []byte) string {
	var sb strings.Builder
	sb.WriteByte('[')
	for i, x := range b {
		if i > 0 {
			sb.WriteByte(';')
		}
		sb.WriteString(strconv.Itoa(int(x)))
	}
	sb.WriteByte(']')
	return sb.String()
}

func cStr(s string) string { return cBytes([]byte(s)) }

func cOptBytes(b []byte) string {
	if b == nil {
		return "None"
	}
	return "(Some " + cBytes(b) + ")"
}

func cListN(xs []uint64) string {
	var sb strings.Builder
	sb.WriteByte('[')
	for i, x := range xs {
		if i > 0 {
			sb.WriteByte(';')
		}
		sb.WriteString(strconv.FormatUint(x, 10))
	}
	sb.WriteByte(']')
	return sb.String()
}

func cListBytes(bs [][]byte) string {
	var sb strings.Builder
	sb.WriteByte('[')
	for i, x := range bs {
		if i > 0 {
			sb.WriteByte(';')
		}
		sb.WriteString(cBytes(x))
	}
	sb.WriteByte(']')
	return sb.String()
}

func cList(items []string) string { return "[" + strings.Join(items, "; ") + "]" }

// caseFile writes a Coq file: header, any auxiliary definitions, then
// `Definition cases : list T := [ c0; c1; ... ].` and the evaluation command.
type caseFile struct {
	f     *os.File
	w     *bufio.Writer
	n     int
	aux   int
	typ   string
	open  bool
	items []string
}

func newCaseFile(path string, imports []string, typ string) (*caseFile, error) {
	f, err := os.Create(path)
	if err != nil {
		return nil, err
	}
	w := bufio.NewWriterSize(f, 1<<20)
	fmt.Fprintln(w, "From Coq Require Import List NArith ZArith Bool Uint63.")
	fmt.Fprintf(w, "From Semadb Require Import %s.\n", strings.Join(imports, " "))
	fmt.Fprintln(w, "Import ListNotations.\nOpen Scope N_scope.")
	return &caseFile{f: f, w: w, typ: typ}, nil
}

// Aux emits a named auxiliary definition and returns its name.
func (c *caseFile) Aux(ty, body string) string {
	name := fmt.Sprintf("aux%d", c.aux)
	c.aux++
	fmt.Fprintf(c.w, "Definition %s : %s := %s.\n", name, ty, body)
	return name
}

func (c *caseFile) Add(term string) int {
	c.items = append(c.items, term)
	c.n++
	return c.n - 1
}

// Close writes the case list in blocks (to keep single terms small) and the
// evaluation of `evalFn cases`.
func (c *caseFile) Close(evalFn string) error {
	const block = 200
	var names []string
	for i := 0; i < len(c.items); i += block {
		j := i + block
		if j > len(c.items) {
			j = len(c.items)
		}
		name := fmt.Sprintf("blk%d", i/block)
		fmt.Fprintf(c.w, "Definition %s : list %s := [\n  %s ].\n", name, c.typ, strings.Join(c.items[i:j], ";\n  "))
		names = append(names, name)
	}
	if len(names) == 0 {
		fmt.Fprintf(c.w, "Definition cases : list %s := [].\n", c.typ)
	} else {
		fmt.Fprintf(c.w, "Definition cases : list %s := %s.\n", c.typ, strings.Join(names, " ++ "))
	}
	fmt.Fprintf(c.w, "Definition result := Eval vm_compute in (%s cases).\n", evalFn)
	fmt.Fprintln(c.w, "Set Printing Width 1000000.\nSet Printing Depth 1000000.")
	fmt.Fprintln(c.w, "Print result.")
	if err := c.w.Flush(); err != nil {
		return err
	}
	return c.f.Close()
}
