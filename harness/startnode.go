package main

import (
	"github.com/prometheus/client_golang/prometheus"
	"github.com/semafind/semadb/cluster"
)

// startNode builds a node the way main.go does: NewNode, then RegisterMetrics on a registry of its own (Serve and Sync
// are left to the caller, as the scenarios need them)
func startNode(cfg cluster.ClusterNodeConfig) (*cluster.ClusterNode, error) {
	nd, err := cluster.NewNode(cfg)
	if err != nil {
		return nil, err
	}
	nd.RegisterMetrics(prometheus.NewRegistry())
	return nd, nil
}
