package main

import (
	"bytes"
	"fmt"
	"math"
	"math/rand/v2"
	"os"
	"path/filepath"
	"sort"
	"strings"

	"github.com/google/uuid"
	"github.com/semafind/semadb/conversion"
	"github.com/semafind/semadb/diskstore"
	"github.com/semafind/semadb/shard/index/inverted"
	"github.com/semafind/semadb/shard/index/text"
	"github.com/semafind/semadb/shard/pointstore"
)

func init() { subcmds["c19"] = runC19 }

func newRng(seed uint64, stream uint64) *rand.Rand {
	return rand.New(rand.NewPCG(seed, stream*0x9E3779B97F4A7C15+1))
}

func i64Pool(r *rand.Rand, n int) []int64 {
	p := []int64{math.MinInt64, math.MinInt64 + 1, -1, 0, 1, math.MaxInt64 - 1, math.MaxInt64, -256, -255, 255, 256, 127, 128, -128, -129}
	for k := 1; k < 63; k++ {
		v := int64(1) << uint(k)
		p = append(p, v, v-1, v+1, -v, -v-1, -v+1)
	}
	for len(p) < n {
		switch r.IntN(4) {
		case 0:
			p = append(p, int64(r.Uint64()))
		case 1:
			p = append(p, int64(r.IntN(2001)-1000))
		case 2:
			p = append(p, int64(r.Uint64()>>uint(r.IntN(64))))
		default:
			p = append(p, -int64(r.Uint64()>>uint(1+r.IntN(63))))
		}
	}
	return p
}

func isNaNBits(b uint64) bool { return b&0x7FFFFFFFFFFFFFFF > 0x7FF0000000000000 }

func f64Pool(r *rand.Rand, n int) []uint64 {
	p := []uint64{0, 1 << 63, 1, 1<<63 | 1, 0x000FFFFFFFFFFFFF, 0x0010000000000000, 0x800FFFFFFFFFFFFF, 0x8010000000000000,
		0x7FEFFFFFFFFFFFFF, 0xFFEFFFFFFFFFFFFF, 0x7FF0000000000000, 0xFFF0000000000000,
		math.Float64bits(1), math.Float64bits(-1), math.Float64bits(0.5), math.Float64bits(-0.5), math.Float64bits(1.5), math.Float64bits(-1.5),
		math.Float64bits(math.Pi), math.Float64bits(-math.Pi), 2, 1<<63 | 2}
	for k := 0; k < 63; k++ {
		v := uint64(1) << uint(k)
		for _, c := range []uint64{v, v - 1, v + 1, v | 1<<63, (v - 1) | 1<<63, (v + 1) | 1<<63} {
			if !isNaNBits(c) {
				p = append(p, c)
			}
		}
	}
	for len(p) < n {
		var b uint64
		switch r.IntN(3) {
		case 0:
			b = r.Uint64()
		case 1:
			b = math.Float64bits(float64(r.IntN(2001)-1000) / 8)
		default:
			b = math.Float64bits(r.NormFloat64() * math.Pow(10, float64(r.IntN(40)-20)))
		}
		if !isNaNBits(b) {
			p = append(p, b)
		}
	}
	return p
}

func strPool(r *rand.Rand, n int) []string {
	p := []string{"", "a", "A", "aa", "ab", "a\x00", "a\xff", "\x00", "\xff", "\xff\xff", "b", "é", "É", "ß", "straße", "İ", "ı", "K", "k", "日本", "日本語", "z", "zz", "~"}
	// long values sharing long prefixes (URLs, paths): lengths around 255/256, 1023/1024/1025, 2048, 4096, 5000
	long := strings.Repeat("https://example.org/a/very/long/path/segment/", 120)
	for _, l := range []int{255, 256, 257, 1023, 1024, 1025, 2047, 2048, 4096, 5000} {
		p = append(p, long[:l], long[:l-1]+"Z", long[:l]+"a", long[:l]+"b")
	}
	base := append([]string{}, p[:24]...)
	for len(p) < n {
		switch r.IntN(4) {
		case 0: // extend an existing string (prefix relations)
			s := base[r.IntN(len(base))]
			p = append(p, s+string([]byte{byte(r.IntN(256))}))
		case 1:
			l := r.IntN(12)
			b := make([]byte, l)
			for i := range b {
				b[i] = byte(r.IntN(256))
			}
			p = append(p, string(b))
		case 2:
			l := 1 + r.IntN(6)
			b := make([]byte, l)
			for i := range b {
				b[i] = "abAB01 _"[r.IntN(8)]
			}
			p = append(p, string(b))
		default:
			s := p[r.IntN(len(p))]
			if len(s) > 0 {
				p = append(p, s[:r.IntN(len(s)+1)])
			} else {
				p = append(p, "x")
			}
		}
	}
	return p
}

func u64Pool(r *rand.Rand, n int) []uint64 {
	p := []uint64{0, 1, 2, 255, 256, 65535, 65536, math.MaxUint64, math.MaxUint64 - 1, 1 << 63, 1<<63 - 1}
	for len(p) < n {
		switch r.IntN(3) {
		case 0:
			p = append(p, r.Uint64())
		case 1:
			p = append(p, uint64(r.IntN(100000)))
		default:
			p = append(p, r.Uint64()>>uint(r.IntN(64)))
		}
	}
	return p
}

func runC19(rc *runCtx) error {
	n := rc.n
	if n == 0 {
		n = 400
		if rc.thorough() {
			n = 6000
		}
	}
	r := newRng(rc.seed, 19)
	cf, err := newCaseFile(filepath.Join(rc.outDir, "cases_C19.v"), []string{"Bytes", "Pack", "Model_C19", "KV", "Run_C19"}, "c19case")
	if err != nil {
		return err
	}
	hist := map[string]int{}
	distinct := map[string]struct{}{}
	note := func(kind string, key string) {
		hist[kind]++
		distinct[kind+"|"+key] = struct{}{}
	}
	// ---- int64
	{
		vs := i64Pool(r, n)
		sort.Slice(vs, func(i, j int) bool { return vs[i] < vs[j] })
		for i, v := range vs {
			v2 := vs[(i+1)%len(vs)]
			if r.IntN(3) == 0 {
				v2 = vs[r.IntN(len(vs))]
			}
			e, err := inverted.VerifToByteSortableInt64(v)
			if err != nil {
				return err
			}
			e2, _ := inverted.VerifToByteSortableInt64(v2)
			d, err := inverted.VerifFromByteSortableInt64(e)
			if err != nil {
				return err
			}
			cf.Add(fmt.Sprintf("CI64 %s %s %s %s %s", cZ(v), pB(e), cZ(d), cZ(v2), pB(e2)))
			note("int64", fmt.Sprint(v, v2))
			if i == 0 {
				rc.addSample(map[string]any{"kind": "int64", "v": v, "enc": fmt.Sprintf("%x", e), "dec": d, "v2": v2})
			}
		}
	}
	// ---- uint64
	{
		vs := u64Pool(r, n/2)
		sort.Slice(vs, func(i, j int) bool { return vs[i] < vs[j] })
		for i, v := range vs {
			v2 := vs[(i+1)%len(vs)]
			e, err := inverted.VerifToByteSortableUint64(v)
			if err != nil {
				return err
			}
			e2, _ := inverted.VerifToByteSortableUint64(v2)
			d, _ := inverted.VerifFromByteSortableUint64(e)
			cf.Add(fmt.Sprintf("CU64 %s %s %s %s %s", cN(v), pB(e), cN(d), cN(v2), pB(e2)))
			note("uint64", fmt.Sprint(v, v2))
		}
	}
	// ---- float64 (bit patterns, non-NaN)
	{
		vs := f64Pool(r, n)
		sort.Slice(vs, func(i, j int) bool {
			a, b := math.Float64frombits(vs[i]), math.Float64frombits(vs[j])
			if a != b {
				return a < b
			}
			return vs[i] < vs[j]
		})
		for i, v := range vs {
			v2 := vs[(i+1)%len(vs)]
			if r.IntN(3) == 0 {
				v2 = vs[r.IntN(len(vs))]
			}
			e, err := inverted.VerifToByteSortableFloat64(math.Float64frombits(v))
			if err != nil {
				return err
			}
			e2, _ := inverted.VerifToByteSortableFloat64(math.Float64frombits(v2))
			d, _ := inverted.VerifFromByteSortableFloat64(e)
			cf.Add(fmt.Sprintf("CF64 %s %s %s %s %s", cN(v), pB(e), cN(math.Float64bits(d)), cN(v2), pB(e2)))
			note("float64", fmt.Sprint(v, v2))
			if v == 1<<63 {
				rc.addSample(map[string]any{"kind": "float64", "bits": fmt.Sprintf("%016x", v), "enc": fmt.Sprintf("%x", e), "decbits": fmt.Sprintf("%016x", math.Float64bits(d))})
			}
		}
	}
	// ---- strings
	{
		vs := strPool(r, n/2)
		sort.Strings(vs)
		for i, v := range vs {
			v2 := vs[(i+1)%len(vs)]
			if r.IntN(3) == 0 {
				v2 = vs[r.IntN(len(vs))]
			}
			e, err := inverted.VerifToByteSortableString(v)
			if err != nil {
				return err
			}
			e2, _ := inverted.VerifToByteSortableString(v2)
			d, _ := inverted.VerifFromByteSortableString(e)
			cf.Add(fmt.Sprintf("CStr %s %s %s %s %s", pS(v), pB(e), pS(d), pS(v2), pB(e2)))
			note("string", v+"|"+v2)
		}
	}
	// ---- float32 vectors, edge lists, single uint64 (little endian)
	{
		lens := []int{1, 2, 3, 4, 7, 8, 31, 32, 33, 64, 100}
		if rc.thorough() {
			lens = append(lens, 255, 256, 1000, 4095, 4096)
		} else {
			lens = append(lens, 4096)
		}
		for i := 0; i < n/10; i++ {
			l := lens[i%len(lens)]
			if i >= len(lens) {
				l = 1 + r.IntN(48)
			}
			xs := make([]float32, l)
			bits := make([]uint64, l)
			for j := range xs {
				var b uint32
				switch r.IntN(5) {
				case 0:
					b = []uint32{0, 0x80000000, 0x7F800000, 0xFF800000, 0x7FC00000, 0x7F800001, 1, 0x007FFFFF, 0x00800000, 0x3F800000}[r.IntN(10)]
				default:
					b = r.Uint32()
				}
				xs[j] = math.Float32frombits(b)
				bits[j] = uint64(b)
			}
			e := conversion.Float32ToBytes(xs)
			ecopy := append([]byte{}, e...)
			d := conversion.BytesToFloat32(ecopy)
			dbits := make([]uint64, len(d))
			for j := range d {
				dbits[j] = uint64(math.Float32bits(d[j]))
			}
			cf.Add(fmt.Sprintf("CF32s %s %s %s", cListN(bits), pB(ecopy), cListN(dbits)))
			note("f32vec", fmt.Sprint(l, bits[0]))
		}
		for i := 0; i < n/10; i++ {
			l := r.IntN(70)
			xs := u64Pool(r, 11+l)[11-min(11, l):]
			xs = xs[:l]
			e := conversion.EdgeListToBytes(xs)
			d := conversion.BytesToEdgeList(e)
			cf.Add(fmt.Sprintf("CEdges %s %s %s", cListN(xs), pB(e), cListN(d)))
			note("edges", fmt.Sprint(l, xs))
		}
		for _, v := range u64Pool(r, n/8) {
			e := conversion.Uint64ToBytes(v)
			d := conversion.BytesToUint64(e)
			cf.Add(fmt.Sprintf("CU64le %s %s %s", cN(v), pB(e), cN(d)))
			note("u64le", fmt.Sprint(v))
		}
	}
	// ---- keys
	{
		sufs := []byte{'i', 'd', 'e', 'v', 'q', 0, 255, 'n'}
		for _, id := range u64Pool(r, n/4) {
			s := sufs[r.IntN(len(sufs))]
			s2 := sufs[r.IntN(len(sufs))]
			k := conversion.NodeKey(id, s)
			d, ok := conversion.NodeIdFromKey(k, s)
			_, ok2 := conversion.NodeIdFromKey(k, s2)
			cf.Add(fmt.Sprintf("CNode %s %d %d %s %s %s %s", cN(id), s, s2, pB(k), cBool(ok), cN(d), cBool(ok2)))
			note("nodekey", fmt.Sprint(id, s, s2))
			dk := text.VerifDocumentKey(id)
			dd, dok := text.VerifDocIdFromKey(dk)
			cf.Add(fmt.Sprintf("CDoc %s %s %s %s", cN(id), pB(dk), cBool(dok), cN(dd)))
			note("dockey", fmt.Sprint(id))
		}
		for i := 0; i < n/8; i++ {
			var u uuid.UUID
			for j := range u {
				u[j] = byte(r.IntN(256))
			}
			if i == 0 {
				u = uuid.Nil
			}
			s := sufs[r.IntN(len(sufs))]
			k := pointstore.PointKey(u, s)
			cf.Add(fmt.Sprintf("CPoint %s %d %s", pB(u[:]), s, pB(k)))
			note("pointkey", fmt.Sprint(u, s))
		}
		for _, t := range strPool(r, n/4) {
			k := text.VerifTermKey(t)
			d, ok := text.VerifTermIdFromKey(k)
			cf.Add(fmt.Sprintf("CTerm %s %s %s %s", pS(t), pB(k), cBool(ok), pS(d)))
			note("termkey", t)
		}
		// raw keys into the decoders: random bytes and mutated valid keys
		for i := 0; i < n/4; i++ {
			var k []byte
			switch r.IntN(4) {
			case 0:
				k = make([]byte, r.IntN(22))
				for j := range k {
					k[j] = byte(r.IntN(256))
				}
			case 1:
				k = conversion.NodeKey(r.Uint64(), sufs[r.IntN(len(sufs))])
				if r.IntN(2) == 0 {
					k[r.IntN(len(k))] ^= byte(1 + r.IntN(255))
				} else if r.IntN(2) == 0 {
					k = k[:r.IntN(len(k))]
				} else {
					k = append(k, byte(r.IntN(256)))
				}
			case 2:
				k = text.VerifDocumentKey(r.Uint64())
				if r.IntN(2) == 0 {
					k[0] = "dtns"[r.IntN(4)]
				} else {
					k = append(k, 's')
				}
			default:
				k = []byte("t" + strPool(r, 30)[r.IntN(30)] + "s")
				if r.IntN(2) == 0 && len(k) > 0 {
					k = k[:len(k)-1]
				}
			}
			s := sufs[r.IntN(len(sufs))]
			d, ok := conversion.NodeIdFromKey(k, s)
			cf.Add(fmt.Sprintf("CRawNode %s %d %s %s", pB(k), s, cBool(ok), cN(d)))
			td, tok := text.VerifTermIdFromKey(k)
			cf.Add(fmt.Sprintf("CRawTerm %s %s %s", pB(k), cBool(tok), pS(td)))
			dd, dok := text.VerifDocIdFromKey(k)
			cf.Add(fmt.Sprintf("CRawDoc %s %s %s", pB(k), cBool(dok), cN(dd)))
			note("rawkey", string(k))
		}
	}
	// ---- range and prefix scans over real buckets (bbolt file and memstore)
	{
		nb := 2
		nkeys, nq := 120, 40
		if rc.thorough() {
			nb, nkeys, nq = 8, 600, 120
		}
		tmp, err := os.MkdirTemp("", "verif-c19-")
		if err != nil {
			return err
		}
		defer os.RemoveAll(tmp)
		for b := 0; b < nb; b++ {
			// key population: encoded values of one type, so that scans are the ones the index issues
			keyset := map[string]struct{}{}
			switch b % 4 {
			case 0:
				for _, v := range i64Pool(r, nkeys) {
					e, _ := inverted.VerifToByteSortableInt64(v)
					keyset[string(e)] = struct{}{}
				}
			case 1:
				for _, v := range f64Pool(r, nkeys*2)[r.IntN(nkeys):] {
					e, _ := inverted.VerifToByteSortableFloat64(math.Float64frombits(v))
					keyset[string(e)] = struct{}{}
					if len(keyset) >= nkeys {
						break
					}
				}
			case 2:
				for _, v := range strPool(r, nkeys) {
					if v != "" {
						keyset[v] = struct{}{}
					}
				}
			default:
				for i := 0; i < nkeys; i++ {
					k := make([]byte, 1+r.IntN(4))
					for j := range k {
						k[j] = byte(r.IntN(4))
					}
					keyset[string(k)] = struct{}{}
				}
			}
			keys := make([][]byte, 0, len(keyset))
			for k := range keyset {
				keys = append(keys, []byte(k))
			}
			sort.Slice(keys, func(i, j int) bool { return bytes.Compare(keys[i], keys[j]) < 0 })
			keysName := cf.Aux("list bytes", pListB(keys))
			for _, mem := range []bool{false, true} {
				path := ""
				if !mem {
					path = filepath.Join(tmp, fmt.Sprintf("b%d.bbolt", b))
				}
				ds, err := diskstore.Open(path)
				if err != nil {
					return err
				}
				err = ds.Write(func(bm diskstore.BucketManager) error {
					bk, err := bm.Get("k")
					if err != nil {
						return err
					}
					// insert in random order
					perm := r.Perm(len(keys))
					for _, i := range perm {
						if err := bk.Put(keys[i], []byte{1}); err != nil {
							return err
						}
					}
					return nil
				})
				if err != nil {
					return err
				}
				pick := func() []byte {
					switch r.IntN(6) {
					case 0:
						return nil
					case 1, 2:
						return append([]byte{}, keys[r.IntN(len(keys))]...)
					case 3: // neighbour of a key
						k := append([]byte{}, keys[r.IntN(len(keys))]...)
						if len(k) > 0 {
							k[len(k)-1] += byte(r.IntN(3)) - 1
						}
						return k
					case 4:
						k := append([]byte{}, keys[r.IntN(len(keys))]...)
						return k[:r.IntN(len(k)+1)]
					default:
						k := append([]byte{}, keys[r.IntN(len(keys))]...)
						return append(k, byte(r.IntN(256)))
					}
				}
				err = ds.Read(func(bm diskstore.BucketManager) error {
					bk, err := bm.Get("k")
					if err != nil {
						return err
					}
					for q := 0; q < nq; q++ {
						s, e := pick(), pick()
						if s != nil && len(s) == 0 {
							s = nil // bbolt treats an empty seek key like the beginning; the code never passes one
						}
						if e != nil && len(e) == 0 {
							e = nil
						}
						incl := r.IntN(2) == 0
						var visited [][]byte
						if err := bk.RangeScan(s, e, incl, func(k, v []byte) error {
							visited = append(visited, append([]byte{}, k...))
							return nil
						}); err != nil {
							return err
						}
						cf.Add(fmt.Sprintf("CScan %s %s %s %s %s %s", cBool(mem), keysName, pOptB(s), pOptB(e), cBool(incl), pListB(visited)))
						note("scan", fmt.Sprint(mem, b, s, e, incl))
						if q == 0 && b == 0 {
							rc.addSample(map[string]any{"kind": "rangescan", "mem": mem, "nkeys": len(keys), "start": fmt.Sprintf("%x", s), "end": fmt.Sprintf("%x", e), "inclusive": incl, "visited": len(visited)})
						}
					}
					for q := 0; q < nq/2; q++ {
						p := pick()
						if len(p) == 0 {
							p = []byte{keys[0][0]}
						}
						var visited [][]byte
						if err := bk.PrefixScan(p, func(k, v []byte) error {
							visited = append(visited, append([]byte{}, k...))
							return nil
						}); err != nil {
							return err
						}
						if mem { // map iteration order: compare as a set
							sort.Slice(visited, func(i, j int) bool { return bytes.Compare(visited[i], visited[j]) < 0 })
						}
						cf.Add(fmt.Sprintf("CPrefix %s %s %s", keysName, pB(p), pListB(visited)))
						note("prefixscan", fmt.Sprint(mem, b, p))
					}
					return nil
				})
				if err != nil {
					return err
				}
				ds.Close()
			}
		}
	}
	rc.stats["evaluations"] = cf.n
	rc.stats["distinct"] = len(distinct)
	rc.stats["histogram"] = hist
	return cf.Close("bad")
}
