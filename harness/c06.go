package main

func init() { subcmds["c06"] = runC06 }

func runC06(rc *runCtx) error {
	n := rc.n
	if n == 0 {
		n = 80
		if rc.thorough() {
			n = 2000
		}
	}
	nfiles := 8
	if rc.thorough() {
		nfiles = 32
	}
	return runHistories(rc, "c06", n, []int{0, 3, 4, 1}, nfiles,
		[]string{"Bytes", "Pack", "Value", "Obs", "Run_C06"}, "hist", "C06")
}
