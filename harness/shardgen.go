package main

// Seeded generation of schemas, documents, write histories and queries for
// the shard-level checks (C01..C10). Everything derives from one PRNG.

import (
	"math"
	"math/rand/v2"
	"os"
	"sort"
	"strconv"
	"strings"

	"github.com/google/uuid"
)

type genState struct {
	r               *rand.Rand
	pcg             *rand.PCG
	profile         string
	schema          schemaSpec
	pool            []uuid.UUID
	forceInsertNext bool              // set after a delete batch that failed for good (profile c07)
	plainStep       bool              // the batch just generated is executed once, without the fault sweep
	softBits        bool              // bit-metric vectors also take fractional values
	bigAt           int               // step of the oversized rejected insert request (profile c07), 0 = none
	bigHuge         bool              // the oversized batch takes the thorough-tier size
	tagOK           bool              // histories that may contain the tagged known-finding request shape (F14)
	sent            map[uuid.UUID]Val // approximate bookkeeping of what is stored (only to pick interesting values)
	maxSize         int
	noRej           bool // avoid batches that are rejected inside the transaction (memstore has no rollback)
	words           []string
	old             map[string][]Val // values stored earlier at a path
	recent          []uuid.UUID      // ids written by the last accepted batch
	chain           int              // >0: graph 'chain' history: points on a ray inserted one per batch, then the middle deleted
	chainIds        []uuid.UUID
	large           bool // graph profile: 60..110 points, few batches
	dim             int
	vecMetric       string
}

var intPool = []int64{0, 1, -1, 2, 3, 5, 7, 10, 42, 100, -100, 255, 256, 1000, math.MaxInt64, math.MinInt64, math.MaxInt64 - 1, math.MinInt64 + 1, 1 << 31, -(1 << 31), 1<<32 + 1}
var floatPool = []float64{0, math.Copysign(0, -1), 1, -1, 0.5, -0.5, 1.5, 2.5, -2.5, 3.25, 100, -100, 5e-324, -5e-324, 2.2250738585072014e-308, math.MaxFloat64, -math.MaxFloat64, math.Inf(1), math.Inf(-1), 1e-10, 1e10, 0.1, 0.2, 0.30000000000000004}
var strPoolBase = []string{"a", "A", "ab", "Ab", "aB", "AB", "abc", "abd", "b", "B", "ba", "apple", "Apple", "APPLE", "apples", "banana", "Banana", "cherry", "z", "Z", "zz", "é", "É", "ß", "straße", "STRASSE", "İstanbul", "istanbul", "日本", "日本語", "a b", "a-b", "a.b", "0", "1", "10", "2", "~",
	// a prefix directly followed by a character outside the basic multilingual plane (4-byte UTF-8, lead byte 0xF0..0xF4)
	"a\U0001F600", "ab\U0001F600x", "ap\U0001D4B3", "z\U00010000", "\U0010FFFF"}
var tagPool = []string{"red", "Red", "RED", "green", "blue", "Blue", "x", "X", "y", "tag1", "tag2", "é", "É"}
var vocab = []string{"the", "a", "of", "and", "wizard", "Wizard", "gandalf", "Gandalf", "frodo", "ring", "rings", "mountain", "fire", "shadow", "king", "return", "hobbit", "elf", "dwarf", "sword", "quest", "dark", "tower", "two", "fellowship", "journey", "dragon", "gold", "river", "forest", "is", "to", "in", "it", "über", "café", "naïve", "日本", "x1", "42", "!!!", "...", "-", "don't", "e-mail"}

// a property name of 47 bytes: map keys of 32 bytes and more are not written with the one-byte string header
const c05LongName = "a_text_property_with_a_name_longer_than_31bytes"

func newGen(profile string, seed uint64, idx int) *genState {
	pcg := rand.NewPCG(seed, uint64(idx)*0x9E3779B97F4A7C15+77)
	r := rand.New(pcg)
	g := &genState{r: r, pcg: pcg, profile: profile, sent: map[uuid.UUID]Val{}, maxSize: 1 << 20}
	npool := 10 + r.IntN(6)
	large := profile == "c03" && idx%6 == 5
	if large {
		npool = 60 + r.IntN(50) // a collection larger than every search window
	}
	if profile == "c08" && idx%24 == 10 {
		// a shard of 120..135 points: node ids run past 100 / 113 / 118, where one byte of the id equals a key suffix
		// ('e' edges, 'q' codes, 'v' vector) -- what a cold cache enumerates from the file must not depend on the id
		large = true
		npool = 120 + r.IntN(16)
	}
	for i := 0; i < npool; i++ {
		var u uuid.UUID
		for j := range u {
			u[j] = byte(r.IntN(256))
		}
		g.pool = append(g.pool, u)
	}
	// the two extreme ids are ids like any other (the all-zero uuid is what a zero value of the type looks like)
	switch idx % 3 {
	case 1:
		g.pool[0] = uuid.Nil
	case 2:
		g.pool[0] = uuid.Max
	}
	g.words = vocab
	g.tagOK = idx%3 == 0
	if profile == "c07" && idx%16 == 5 {
		g.bigAt = 2 + r.IntN(3)
		g.bigHuge = idx%160 == 5 // thorough tier: one history in 160 gets the 5000-point batch (45 s of Coq per observation)
	}
	g.large = large
	g.schema = g.pickSchema(idx)
	for _, ix := range g.schema {
		if !large && ix.kind == ixVamana && ix.metric == "euclidean" && ((profile == "c08" && idx%2 == 1) || (profile == "c03" && idx%4 == 3)) {
			g.chain = 4 + r.IntN(3)
		}
	}
	return g
}

func (g *genState) pickSchema(idx int) schemaSpec {
	r := g.r
	filt := schemaSpec{
		{path: "i", kind: ixInt}, {path: "f", kind: ixFloat}, {path: "s", kind: ixStr, caseSens: true},
		{path: "t", kind: ixStr, caseSens: false}, {path: "tags", kind: ixStrArr, caseSens: r.IntN(2) == 0},
		{path: "nested.n", kind: ixInt}, {path: "nested.deep.s", kind: ixStr, caseSens: false},
	}
	g.dim = []int{2, 3, 4, 8}[r.IntN(4)]
	switch g.profile {
	case "c02":
		return filt
	case "c04":
		return g.schemaC04(idx)
	case "c03":
		return g.schemaC03(idx)
	case "c08", "c07", "c09":
		g.vecMetric = "euclidean"
		sc := schemaSpec{{path: "i", kind: ixInt}, {path: "t", kind: ixStr, caseSens: false}, {path: "tags", kind: ixStrArr, caseSens: idx%4 != 1},
			{path: "f", kind: ixFloat}, {path: "txt", kind: ixText}}
		switch idx % 3 {
		case 0:
			if idx%6 == 3 { // product quantiser trained within the history: points first persisted in quantised form
				if g.dim == 3 {
					g.dim = 4
				}
				sc = append(sc, idxSpec{path: "fv", kind: ixFlat, dim: g.dim, metric: "euclidean", q: quantSpec{kind: 3, ncent: 2 + r.IntN(3), nsub: 2, trigger: 4 + r.IntN(6)}})
			} else {
				sc = append(sc, idxSpec{path: "fv", kind: ixFlat, dim: g.dim, metric: "euclidean"})
			}
		case 1:
			sc = append(sc, idxSpec{path: "fv", kind: ixFlat, dim: g.dim, metric: "euclidean", q: quantSpec{kind: 2, trigger: 3 + r.IntN(4), metric: "hamming"}})
			sc = append(sc, idxSpec{path: "vec", kind: ixVamana, dim: g.dim, metric: "euclidean", search: 30, degree: 32, alpha: 1.2})
		default:
			var vq quantSpec
			if idx%6 == 5 {
				// a graph index whose binary quantiser learns its threshold inside the history (the first insert batches
				// have 3..7 points): what the training batch leaves in the file is what a reopened shard answers from
				vq = quantSpec{kind: 2, trigger: 3 + r.IntN(5), metric: "hamming"}
			}
			sc = append(sc, idxSpec{path: "vec", kind: ixVamana, dim: g.dim, metric: "dot", search: 25, degree: []int{4, 8}[r.IntN(2)], alpha: 1.2, q: vq})
		}
		return sc
	case "c06":
		g.vecMetric = "euclidean"
		sc := schemaSpec{{path: "fv", kind: ixFlat, dim: g.dim, metric: "euclidean"}, {path: "txt", kind: ixText}, {path: "i", kind: ixInt},
			{path: "s", kind: ixStr, caseSens: true}, {path: "tags", kind: ixStrArr, caseSens: false}, {path: "nested.n", kind: ixInt}}
		if idx%2 == 1 {
			sc = append(sc, idxSpec{path: "vec", kind: ixVamana, dim: g.dim, metric: "euclidean", search: 30, degree: 4 + r.IntN(5), alpha: 1.2})
		}
		return sc
	case "c05":
		return schemaSpec{{path: []string{"txt", "meta.body", c05LongName}[idx%3], kind: ixText}, {path: "i", kind: ixInt}, {path: "tags", kind: ixStrArr, caseSens: true}}
	case "c01":
		switch idx % 6 {
		case 0:
			return schemaSpec{}
		case 1, 2:
			return filt
		case 3:
			return schemaSpec{{path: "txt", kind: ixText}, {path: "fv", kind: ixFlat, dim: g.dim, metric: "euclidean"}, {path: "i", kind: ixInt}}
		case 4:
			return schemaSpec{{path: "vec", kind: ixVamana, dim: g.dim, metric: "euclidean", search: 25, degree: 4 + r.IntN(6), alpha: 1.2},
				{path: "txt", kind: ixText}, {path: "s", kind: ixStr, caseSens: true}}
		default:
			return schemaSpec{{path: "nested.n", kind: ixInt}, {path: "nested.deep.s", kind: ixStr, caseSens: false}, {path: "nested.v", kind: ixFlat, dim: g.dim, metric: "dot"}, {path: "tags", kind: ixStrArr}}
		}
	}
	return filt
}

func (g *genState) schemaC04(idx int) schemaSpec {
	r := g.r
	metrics := []string{"euclidean", "cosine", "dot", "hamming", "jaccard", "haversine"}
	m := metrics[idx%6]
	dim := []int{2, 3, 4, 8}[r.IntN(4)]
	if m == "haversine" {
		dim = 2
	}
	var q quantSpec
	if m == "euclidean" || m == "cosine" || m == "dot" {
		switch (idx / 6) % 4 {
		case 1:
			q = quantSpec{kind: 1, thr: []float32{0.5, 1.5, -0.5, 0}[r.IntN(4)], metric: []string{"hamming", "jaccard"}[r.IntN(2)]}
		case 2:
			// the first batch has 3..7 points: the threshold is usually learned by a LATER batch, so that points
			// written before and after training coexist (and get updated / deleted afterwards)
			q = quantSpec{kind: 2, trigger: []int{0, 1, 3, 5, 6, 7, 8, 9, 10, 12}[r.IntN(10)], metric: []string{"hamming", "jaccard"}[r.IntN(2)]}
		case 3:
			dim = []int{2, 4, 8}[r.IntN(3)]
			q = quantSpec{kind: 3, ncent: 2 + r.IntN(3), nsub: 2, trigger: 4 + r.IntN(8)}
		}
	}
	if (m == "hamming" || m == "jaccard") && (idx/6)%2 == 1 {
		// a bit-metric index that ALSO carries a binary quantiser block with a threshold of its own: the block is
		// not used for these metrics (bits are taken at 0.5), whatever it says
		q = quantSpec{kind: 1, thr: []float32{0.2, 0.75, -0.5, 1.5}[r.IntN(4)], metric: m}
		g.softBits = true
	}
	g.dim = dim
	g.vecMetric = m
	path := "fv"
	if (idx/6)%3 == 2 {
		// the vector lives inside a nested object: an update reaches it through the parent key
		path = "nested.v"
	}
	return schemaSpec{{path: path, kind: ixFlat, dim: dim, metric: m, q: q}, {path: "i", kind: ixInt}, {path: "tags", kind: ixStrArr, caseSens: true}}
}

func (g *genState) schemaC03(idx int) schemaSpec {
	r := g.r
	metrics := []string{"euclidean", "dot", "cosine"}
	m := metrics[idx%3]
	dim := []int{2, 3, 4, 8}[r.IntN(4)]
	var q quantSpec
	switch (idx / 3) % 5 {
	case 2:
		q = quantSpec{kind: 1, thr: []float32{0.5, 1.5, -0.5, 0}[r.IntN(4)], metric: []string{"hamming", "jaccard"}[r.IntN(2)]}
	case 3:
		// thresholds around the size of the first one or two insert batches: some points are written before the
		// training, the training happens inside the history, more points follow
		q = quantSpec{kind: 2, trigger: []int{0, 1, 3, 4, 5, 5, 6, 6, 7, 9}[r.IntN(10)], metric: []string{"hamming", "jaccard"}[r.IntN(2)]}
	case 4:
		dim = []int{2, 4, 8}[r.IntN(3)]
		q = quantSpec{kind: 3, ncent: 2 + r.IntN(3), nsub: 2, trigger: 4 + r.IntN(5)}
	}
	if (idx/3)%5 == 1 && idx%2 == 1 {
		// a bit-metric graph index that also carries a binary quantiser block with a threshold and a metric of its
		// own: the block is not used (bits are taken at 0.5, the distance is the index metric), whatever it says
		m = []string{"hamming", "jaccard"}[(idx/30)%2]
		q = quantSpec{kind: 1, thr: []float32{0.2, 0.75, -0.5, 1.5}[r.IntN(4)], metric: map[string]string{"hamming": "jaccard", "jaccard": "hamming"}[m]}
		g.softBits = true
	}
	g.dim = dim
	g.vecMetric = m
	degree := []int{3, 4, 8, 32, 64}[r.IntN(5)]
	search := []int{25, 30, 75}[r.IntN(3)]
	alpha := []float32{1.1, 1.2, 1.5}[r.IntN(3)]
	vpath := "vec"
	if (idx/3)%5 == 0 && idx%2 == 0 {
		// the vector lives inside a nested object: an update reaches it through the parent key
		vpath = "nested.v"
	}
	return schemaSpec{{path: vpath, kind: ixVamana, dim: dim, metric: m, search: search, degree: degree, alpha: alpha, q: q},
		{path: "i", kind: ixInt}, {path: "tags", kind: ixStrArr, caseSens: true}}
}

func (g *genState) pick(ss []string) string { return ss[g.r.IntN(len(ss))] }

// integers beyond 2^53 that differ by less than the float64 spacing at their size (nanosecond timestamps, 64-bit ids)
var adjacentBigInts = []int64{1<<53 + 1, 1<<53 + 2, 1<<53 + 3, -(1 << 53) - 1, -(1 << 53) - 2, 1700000000000000001, 1700000000000000002, 1700000000000000003,
	math.MaxInt64 - 1, math.MaxInt64 - 2, math.MaxInt64 - 3, math.MinInt64 + 1, math.MinInt64 + 2}

func (g *genState) genInt() int64 {
	if g.profile == "c06" && g.r.IntN(3) == 0 {
		return adjacentBigInts[g.r.IntN(len(adjacentBigInts))]
	}
	if g.r.IntN(3) == 0 {
		return int64(g.r.IntN(21) - 10)
	}
	return intPool[g.r.IntN(len(intPool))]
}
func (g *genState) genFloat() float64 {
	if g.r.IntN(4) == 0 {
		return float64(g.r.IntN(41)-20) / 4
	}
	return floatPool[g.r.IntN(len(floatPool))]
}
func (g *genState) genStr() string {
	if g.r.IntN(5) == 0 {
		s := g.pick(strPoolBase)
		return s + g.pick(strPoolBase)
	}
	return g.pick(strPoolBase)
}

// textVariant rewrites a stored text: same words in another order, the same distinct words with other
// multiplicities (same length or not), one word swapped, a word dropped or added.
func (g *genState) textVariant(path string) (string, bool) {
	st := g.storedAt(path)
	var cands []string
	for _, v := range st {
		if v.K == kStr && len(strings.Fields(v.S)) >= 2 {
			cands = append(cands, v.S)
		}
	}
	if len(cands) == 0 {
		return "", false
	}
	return g.variantOf(cands[g.r.IntN(len(cands))]), true
}

func (g *genState) variantOf(text string) string {
	ws := strings.Fields(text)
	if len(ws) == 0 {
		return text
	}
	distinct := []string{}
	seen := map[string]bool{}
	for _, w := range ws {
		if !seen[w] {
			seen[w] = true
			distinct = append(distinct, w)
		}
	}
	switch g.r.IntN(5) {
	case 0: // same multiset, other order
		g.r.Shuffle(len(ws), func(i, j int) { ws[i], ws[j] = ws[j], ws[i] })
	case 1, 2: // same distinct words, same number of tokens, other multiplicities
		out := append([]string{}, distinct...)
		for len(out) < len(ws) {
			out = append(out, distinct[g.r.IntN(len(distinct))])
		}
		if len(out) == len(distinct) && len(distinct) >= 2 && len(ws) > len(distinct) {
			out = append(out, distinct[0])
		}
		g.r.Shuffle(len(out), func(i, j int) { out[i], out[j] = out[j], out[i] })
		ws = out
	case 3: // one word replaced
		ws[g.r.IntN(len(ws))] = g.pick(g.words)
	default: // same distinct words, other length
		ws = append(ws, distinct[g.r.IntN(len(distinct))])
	}
	return strings.Join(ws, " ")
}

// rewriteOwn: an update document that rewrites the point's OWN current values in a "nearly the same" way:
// texts with the same words in other multiplicities, vectors moved slightly, tags reordered / one changed.
func (g *genState) rewriteOwn(id uuid.UUID, d *Val) {
	old, ok := g.sent[id]
	if !ok {
		return
	}
	for _, ix := range g.schema {
		if strings.Contains(ix.path, ".") {
			continue
		}
		cur, ok := old.get(ix.path)
		own := (g.profile == "c05" && ix.kind == ixText) || (g.profile == "c04" && ix.kind == ixFlat) || (g.profile == "c03" && ix.kind == ixVamana)
		if !ok || (g.r.IntN(3) != 0 && !(own && g.r.IntN(3) != 0)) {
			continue
		}
		switch ix.kind {
		case ixText:
			if cur.K == kStr {
				setPath(d, ix.path, vStr(g.variantOf(cur.S)))
			}
		case ixStrArr:
			if cur.K == kArr && len(cur.A) > 0 && cur.A[0].K == kStr && g.r.IntN(4) == 0 {
				// the same words in the same order behind other element boundaries: two neighbours become one element
				// "x y", or an element with a blank is split there (what the two arrays print as is the same)
				a := append([]Val{}, cur.A...)
				if len(a) >= 2 && a[1].K == kStr {
					a = append([]Val{vStr(a[0].S + " " + a[1].S)}, a[2:]...)
				} else if i := strings.Index(a[0].S, " "); i > 0 && i < len(a[0].S)-1 {
					a = append([]Val{vStr(a[0].S[:i]), vStr(a[0].S[i+1:])}, a[1:]...)
				}
				setPath(d, ix.path, Val{K: kArr, A: a})
			} else if cur.K == kArr && len(cur.A) > 0 {
				a := append([]Val{}, cur.A...)
				g.r.Shuffle(len(a), func(i, j int) { a[i], a[j] = a[j], a[i] })
				if g.r.IntN(2) == 0 {
					a[0] = vStr(g.pick(tagPool))
				}
				setPath(d, ix.path, Val{K: kArr, A: a})
			}
		case ixStr:
			if cur.K == kStr && cur.S != "" {
				setPath(d, ix.path, vStr([]string{strings.ToUpper(cur.S), strings.ToLower(cur.S), cur.S + "a", cur.S}[g.r.IntN(4)]))
			}
		case ixFlat, ixVamana:
			if cur.K == kArr && len(cur.A) == ix.dim {
				a := append([]Val{}, cur.A...)
				j := g.r.IntN(len(a))
				a[j] = vF32(math.Float32frombits(uint32(a[j].Bits)) + float32(g.r.IntN(3)-1))
				setPath(d, ix.path, Val{K: kArr, A: a})
			}
		}
	}
	sortDoc(d)
}

func (g *genState) genText() string {
	if g.r.IntN(3) == 0 {
		for _, ix := range g.schema {
			if ix.kind == ixText {
				if t, ok := g.textVariant(ix.path); ok {
					return t
				}
			}
		}
	}
	if g.profile == "c05" && g.r.IntN(25) == 0 {
		// one term many times over (more often than a byte can count), next to one other word
		w := g.pick(g.words)
		return strings.TrimSpace(strings.Repeat(w+" ", 250+g.r.IntN(20)) + g.pick(g.words))
	}
	n := g.r.IntN(9)
	if g.r.IntN(10) == 0 {
		n = 0
	}
	ws := make([]string, n)
	for i := range ws {
		ws[i] = g.pick(g.words)
		if i > 0 && g.r.IntN(4) == 0 {
			ws[i] = ws[g.r.IntN(i)] // repeated words: term frequencies above one
		}
	}
	switch g.r.IntN(12) {
	case 0:
		return "the of and a"
	case 1:
		return "!!! ... -"
	}
	return strings.Join(ws, " ")
}
func (g *genState) genVec(dim int) []float32 {
	v := make([]float32, dim)
	switch g.vecMetric {
	case "hamming", "jaccard":
		for i := range v {
			v[i] = float32(g.r.IntN(2))
			if g.r.IntN(8) == 0 {
				v[i] = float32(g.r.IntN(5) - 2)
			}
			if g.softBits && g.r.IntN(3) == 0 {
				v[i] = []float32{0.25, 0.3, 0.45, 0.7, 0.75, 1.25}[g.r.IntN(6)] // between the block's threshold and 0.5
			}
		}
	case "haversine":
		v[0] = float32(g.r.IntN(181) - 90)
		v[1] = float32(g.r.IntN(361) - 180)
	default:
		for i := range v {
			v[i] = float32(g.r.IntN(17) - 8)
		}
		if g.r.IntN(6) == 0 { // duplicates of stored vectors: ties
			if st := append(append(g.storedAt("fv"), g.storedAt("vec")...), g.storedAt("nested.v")...); len(st) > 0 {
				c := st[g.r.IntN(len(st))]
				if c.K == kArr && len(c.A) == dim {
					for i := range v {
						v[i] = math.Float32frombits(uint32(c.A[i].Bits))
					}
				}
			}
		}
	}
	return v
}
func (g *genState) genTags() []string {
	n := g.r.IntN(4)
	ts := make([]string, n)
	for i := range ts {
		ts[i] = g.pick(tagPool)
	}
	return ts
}

// value of the right type for an index
func (g *genState) genFor(ix idxSpec) Val {
	switch ix.kind {
	case ixInt:
		return vInt(g.genInt())
	case ixFloat:
		return vF64(g.genFloat())
	case ixStr:
		return vStr(g.genStr())
	case ixStrArr:
		return vStrs(g.genTags()...)
	case ixText:
		return vStr(g.genText())
	case ixFlat, ixVamana:
		return vVec(g.genVec(ix.dim))
	}
	return vNil()
}

// a value of a WRONG type for an index (rejected batch)
func (g *genState) genWrong(ix idxSpec) Val {
	switch ix.kind {
	case ixInt:
		return []Val{vStr("12"), vF64(1.5), vBool(true)}[g.r.IntN(3)]
	case ixFloat:
		return []Val{vInt(3), vStr("1.5"), vF32(1.5)}[g.r.IntN(3)]
	case ixStr, ixText:
		if ix.kind == ixStr && g.r.IntN(4) == 0 {
			return vStr("") // well typed, but the empty string cannot become a key of the index: refused at the flush
		}
		return []Val{vInt(3), vStrs("a"), vBool(false)}[g.r.IntN(3)]
	case ixStrArr:
		// the last one is well typed but carries an element that cannot become a key of the index (the empty string):
		// the store refuses it when the index is flushed, so the whole batch is rejected inside the transaction
		return []Val{vStr("red"), vArr(vStr("a"), vInt(1)), vInt(1), vStrs(g.pick(tagPool), "")}[g.r.IntN(4)]
	default:
		return []Val{vStr("vec"), vArr(vF64(1), vF64(2)), vInt(1)}[g.r.IntN(3)]
	}
}

func setPath(m *Val, path string, v Val) {
	parts := strings.SplitN(path, ".", 2)
	if len(parts) == 1 {
		for i := range m.M {
			if m.M[i].K == path {
				m.M[i].V = v
				return
			}
		}
		m.M = append(m.M, KV{path, v})
		return
	}
	for i := range m.M {
		if m.M[i].K == parts[0] {
			if m.M[i].V.K != kMap {
				m.M[i].V = Val{K: kMap}
			}
			setPath(&m.M[i].V, parts[1], v)
			return
		}
	}
	sub := Val{K: kMap}
	setPath(&sub, parts[1], v)
	m.M = append(m.M, KV{parts[0], sub})
}

func sortDoc(v *Val) {
	if v.K == kMap {
		sort.Slice(v.M, func(i, j int) bool { return v.M[i].K < v.M[j].K })
		for i := range v.M {
			sortDoc(&v.M[i].V)
		}
	}
	if v.K == kArr {
		for i := range v.A {
			sortDoc(&v.A[i])
		}
	}
}

// genDoc builds a document. wrongOK: may include an ill-typed indexed field.
func (g *genState) genDoc(forUpdate bool, wrongOK bool) Val {
	r := g.r
	d := Val{K: kMap}
	if g.large {
		// small documents: the vector (always on insert) and an integer
		for _, ix := range g.schema {
			if (ix.kind == ixVamana || (g.profile == "c08" && ix.kind == ixFlat)) && (!forUpdate || r.IntN(2) == 0) {
				setPath(&d, ix.path, vVec(g.genVec(ix.dim)))
			}
			if ix.kind == ixInt && r.IntN(2) == 0 {
				setPath(&d, ix.path, vInt(int64(r.IntN(7))))
			}
		}
		sortDoc(&d)
		return d
	}
	// top-level keys touched by nested paths are written as whole sub-maps (shallow merge!)
	for _, ix := range g.schema {
		p := 70
		if forUpdate {
			p = 35
		}
		if r.IntN(100) >= p {
			continue
		}
		v := g.genFor(ix)
		if wrongOK && r.IntN(30) == 0 {
			v = g.genWrong(ix)
		}
		if r.IntN(40) == 0 {
			v = vNil()
		}
		setPath(&d, ix.path, v)
	}
	// a non-indexed sibling next to nested indexed leaves: selecting a leaf is then not selecting its parent
	for i := range d.M {
		if d.M[i].K == "nested" && d.M[i].V.K == kMap && r.IntN(2) == 0 {
			setPath(&d, "nested.m", vMap(KV{"j", vStr(g.genStr())}, KV{"k", vInt(int64(r.IntN(5)))})) // always a map: paths below it never run into a scalar
			break
		}
	}
	// extra, non-indexed content
	if r.IntN(2) == 0 {
		d.M = append(d.M, KV{"extra", []Val{vStr(g.genStr()), vInt(g.genInt()), vF64(g.genFloat()), vBool(r.IntN(2) == 0), vNil(), vArr(vInt(1), vStr("x"), vArr()), vMap(KV{"k", vStr("v")}, KV{"n", vInt(2)})}[r.IntN(7)]})
	}
	if r.IntN(4) == 0 {
		d.M = append(d.M, KV{g.pick([]string{"note", "x", "y", "Name", "_private", ""}), vStr(g.genStr())})
	}
	if r.IntN(25) == 0 {
		d.M = append(d.M, KV{"big", vStr(strings.Repeat("x", 100+r.IntN(400)))})
	}
	if g.profile == "c06" && r.IntN(5) == 0 {
		// a top-level key whose NAME is a dotted path that is also a sort / select path: it is just another key,
		// the path still means the nested value
		d.M = append(d.M, KV{"nested.n", vInt(int64(r.IntN(2000) - 1000))})
	}
	if forUpdate {
		// delete markers: indexed and extra fields, and never-present ones
		if r.IntN(2) == 0 {
			cands := []string{"extra", "note", "big", "x", "nope"}
			for _, ix := range g.schema {
				cands = append(cands, strings.SplitN(ix.path, ".", 2)[0])
			}
			k := g.pick(cands)
			found := false
			for i := range d.M {
				if d.M[i].K == k {
					d.M[i].V = vStr("_delete")
					found = true
				}
			}
			if !found {
				d.M = append(d.M, KV{k, vStr("_delete")})
			}
		}
	}
	// unique keys
	seen := map[string]bool{}
	out := d.M[:0]
	for _, kv := range d.M {
		if !seen[kv.K] {
			seen[kv.K] = true
			out = append(out, kv)
		}
	}
	d.M = out
	sortDoc(&d)
	return d
}

func (g *genState) liveIds() []uuid.UUID {
	ids := make([]uuid.UUID, 0, len(g.sent))
	for _, u := range g.pool {
		if _, ok := g.sent[u]; ok {
			ids = append(ids, u)
		}
	}
	return ids
}
func (g *genState) deadIds() []uuid.UUID {
	ids := []uuid.UUID{}
	for _, u := range g.pool {
		if _, ok := g.sent[u]; !ok {
			ids = append(ids, u)
		}
	}
	return ids
}

// chainBatch: points on a ray, one per batch (alpha pruning then yields the chain start -> p1 <-> p2 <-> ...),
// then two neighbouring middle points are deleted in one batch: the far end loses its only inbound edge and
// must be re-attached to the entry node (and that repair must reach the disk).
func (g *genState) chainBatch(step int) (batchSpec, bool) {
	var vix idxSpec
	for _, ix := range g.schema {
		if ix.kind == ixVamana {
			vix = ix
		}
	}
	top := strings.SplitN(vix.path, ".", 2)[0]
	if step < g.chain {
		v := make([]float32, vix.dim)
		v[0] = float32(100 * (step + 1))
		id := g.pool[step]
		g.chainIds = append(g.chainIds, id)
		return batchSpec{kind: 0, points: []pointSpec{{id: id, doc: Val{K: kMap, M: []KV{{"i", vInt(int64(step))}, {top, vVec(v)}}}}}}, true
	}
	if step == g.chain {
		k := 1 + g.r.IntN(g.chain-3+1)
		return batchSpec{kind: 2, ids: []uuid.UUID{g.chainIds[k], g.chainIds[k+1]}}, true
	}
	return batchSpec{}, false
}

// quantScript: for graph histories with a trainable quantiser (learned binary, product) the first three batches are
// scripted so that the training provably happens INSIDE the history: (0) a few points with vectors, fewer than the
// trigger threshold; (1) enough further points to cross it; (2) an update that removes the vector field of one point
// of batch 0 and a delete of another point of batch 0. From then on the history is random again.
func (g *genState) quantScript(step int) (batchSpec, bool) {
	if g.profile != "c03" || len(g.schema) == 0 {
		return batchSpec{}, false
	}
	ix := g.schema[0]
	t := ix.q.trigger
	if g.profile != "c03" || ix.kind != ixVamana || ix.q.kind < 2 || t < 3 || g.large || g.chain > 0 || len(g.pool) < t+4 {
		return batchSpec{}, false
	}
	top := strings.SplitN(ix.path, ".", 2)[0]
	mk := func(id uuid.UUID) pointSpec {
		d := Val{K: kMap, M: []KV{{"i", vInt(int64(g.r.IntN(5)))}, {"tags", vStrs(g.pick(tagPool))}}}
		setPath(&d, ix.path, vVec(g.genVec(ix.dim)))
		sortDoc(&d)
		return pointSpec{id: id, doc: d}
	}
	switch step {
	case 0:
		b := batchSpec{kind: 0}
		for i := 0; i < t-1 && i < 3; i++ {
			b.points = append(b.points, mk(g.pool[i]))
		}
		return b, true
	case 1:
		b := batchSpec{kind: 0}
		n0 := min(t-1, 3)
		for i := n0; i < t+2 && i < len(g.pool); i++ {
			b.points = append(b.points, mk(g.pool[i]))
		}
		return b, true
	case 2:
		return batchSpec{kind: 1, points: []pointSpec{{id: g.pool[0], doc: Val{K: kMap, M: []KV{{top, vStr("_delete")}}}}}}, true
	case 3:
		return batchSpec{kind: 2, ids: []uuid.UUID{g.pool[1]}}, true
	}
	return batchSpec{}, false
}

func (g *genState) genBatch(step int) batchSpec {
	r := g.r
	if b, ok := g.quantScript(step); ok {
		return b
	}
	if g.forceInsertNext {
		g.forceInsertNext = false
		g.plainStep = true
		if dead := g.deadIds(); len(dead) > 0 {
			b := batchSpec{kind: 0}
			for i := 0; i < 3 && i < len(dead); i++ {
				b.points = append(b.points, pointSpec{id: dead[i], doc: g.genDoc(false, false)})
			}
			return b
		}
	}
	if g.bigAt > 0 && step == g.bigAt {
		// one insert request larger than a plausible internal slice size (1100..1300 points with empty documents in
		// the quick tier, 5000..6700 in the thorough tier)
		// whose LAST point carries an id that is already stored: rejected inside the transaction, nothing may stay
		if live := g.liveIds(); len(live) > 0 {
			n := 1100 + r.IntN(200) // quick tier; the thorough tier uses 5000..7000 (VERIF_BIGN, set by runC07)
			if v, err := strconv.Atoi(os.Getenv("VERIF_BIGN")); err == nil && v > 0 && g.bigHuge {
				n = v + r.IntN(v/3+1)
			}
			b := batchSpec{kind: 0}
			for i := 0; i < n; i++ {
				var u uuid.UUID
				for j := range u {
					u[j] = byte(r.IntN(256))
				}
				b.points = append(b.points, pointSpec{id: u, doc: Val{K: kMap}})
			}
			b.points = append(b.points, pointSpec{id: live[r.IntN(len(live))], doc: Val{K: kMap}})
			return b
		}
	}
	if g.chain > 0 {
		if b, ok := g.chainBatch(step); ok {
			return b
		}
	}
	live, dead := g.liveIds(), g.deadIds()
	k := r.IntN(100)
	if step == 0 || len(live) == 0 {
		k = 0
	}
	switch {
	case k < 45 && len(dead) > 0: // insert
		n := r.IntN(7)
		if step == 0 {
			n = 3 + r.IntN(5)
		}
		if g.large && step < 2 {
			n = len(dead) / (2 - step) // the pool goes in with the first two batches
		}
		b := batchSpec{kind: 0}
		perm := r.Perm(len(dead))
		for i := 0; i < n && i < len(dead); i++ {
			b.points = append(b.points, pointSpec{id: dead[perm[i]], doc: g.genDoc(false, !g.noRej)})
		}
		if len(b.points) > 0 && r.IntN(14) == 0 { // duplicate id inside the batch (rejected before the transaction)
			b.points = append(b.points, pointSpec{id: b.points[r.IntN(len(b.points))].id, doc: g.genDoc(false, false)})
		} else if !g.noRej && len(live) > 0 && r.IntN(12) == 0 { // an id that is already stored
			b.points = append(b.points, pointSpec{id: live[r.IntN(len(live))], doc: g.genDoc(false, false)})
			r.Shuffle(len(b.points), func(i, j int) { b.points[i], b.points[j] = b.points[j], b.points[i] })
		}
		return b
	case k < 75: // update
		n := 1 + r.IntN(5)
		b := batchSpec{kind: 1}
		used := map[uuid.UUID]bool{}
		for i := 0; i < n; i++ {
			var id uuid.UUID
			if r.IntN(4) == 0 && len(dead) > 0 {
				id = dead[r.IntN(len(dead))]
			} else {
				id = live[r.IntN(len(live))]
			}
			if used[id] {
				continue
			}
			used[id] = true
			doc := g.genDoc(true, !g.noRej)
			if r.IntN(2) == 0 {
				g.rewriteOwn(id, &doc)
			}
			g.metricZeroUpdate(id, &doc)
			b.points = append(b.points, pointSpec{id: id, doc: doc})
		}
		// the same id twice in one update batch: only where the point store alone is judged (C01).
		// The index pipelines process the two versions concurrently (text analysis workers), so
		// index state after such a batch is not determined -- see DESIGN.md section 6, F14.
		if g.profile == "c01" && r.IntN(15) == 0 {
			b.points = append(b.points, pointSpec{id: b.points[0].id, doc: g.genDoc(true, false)})
		}
		if r.IntN(20) == 0 {
			b.points = nil
		}
		// graph profiles with a trained / trainable quantiser: remove the vector field of a stored point now and
		// then (a point written before the training keeps entries of both forms in the store)
		if g.profile == "c03" && g.schema[0].q.kind >= 2 && step >= 3 && r.IntN(3) == 0 && len(live) > 0 {
			id := live[r.IntN(len(live))]
			if !used[id] {
				used[id] = true
				top := strings.SplitN(g.schema[0].path, ".", 2)[0]
				b.points = append(b.points, pointSpec{id: id, doc: Val{K: kMap, M: []KV{{top, vStr("_delete")}}}})
			}
		}
		// flat profile: one request that first removes and then sets the vector field of the same point (the store
		// sees a delete and a put of one node id before its next flush)
		if g.profile == "c04" && r.IntN(5) == 0 && len(live) > 0 && len(g.schema) > 0 && g.schema[0].kind == ixFlat {
			ix := g.schema[0]
			id := live[r.IntN(len(live))]
			top := strings.SplitN(ix.path, ".", 2)[0]
			var keep []pointSpec
			for _, p := range b.points {
				if p.id != id {
					keep = append(keep, p)
				}
			}
			set := Val{K: kMap}
			setPath(&set, ix.path, vVec(g.genVec(ix.dim)))
			if g.r.IntN(2) == 0 {
				b.points = append(keep,
					pointSpec{id: id, doc: Val{K: kMap, M: []KV{{top, vStr("_delete")}}}},
					pointSpec{id: id, doc: set})
			} else {
				// the other way round: a put and then a delete of one node id before the next flush (the point ends
				// without the vector, in the running instance and in the file)
				b.points = append(keep,
					pointSpec{id: id, doc: set},
					pointSpec{id: id, doc: Val{K: kMap, M: []KV{{top, vStr("_delete")}}}})
			}
		}
		// graph profiles: one request that removes and re-adds (or sets and then removes) the vector field of
		// the same point. The second shape is the known finding F14 (DESIGN 9.3): the step is tagged.
		if g.profile == "c03" && r.IntN(5) == 0 && len(live) > 0 {
			ix := g.schema[0]
			id := live[r.IntN(len(live))]
			top := strings.SplitN(ix.path, ".", 2)[0]
			del := pointSpec{id: id, doc: Val{K: kMap, M: []KV{{top, vStr("_delete")}}}}
			setDoc := Val{K: kMap}
			setPath(&setDoc, ix.path, vVec(g.genVec(ix.dim)))
			set := pointSpec{id: id, doc: setDoc}
			var keep []pointSpec
			for _, p := range b.points {
				if p.id != id {
					keep = append(keep, p)
				}
			}
			// the known-finding shape only in every third history: whatever follows it in the same history is
			// judged under that finding (the graph is damaged from there on)
			if r.IntN(3) > 0 || !g.tagOK {
				b.points = append(keep, del, set)
			} else {
				b.points = append(keep, set, del)
				b.note = 777
			}
		}
		return b
	default: // delete
		n := 1 + r.IntN(4)
		b := batchSpec{kind: 2}
		seen := map[uuid.UUID]bool{}
		for i := 0; i < n; i++ {
			var id uuid.UUID
			if r.IntN(4) == 0 && len(dead) > 0 {
				id = dead[r.IntN(len(dead))]
			} else {
				id = live[r.IntN(len(live))]
			}
			if !seen[id] {
				seen[id] = true
				b.ids = append(b.ids, id)
			}
		}
		if g.profile == "c03" && r.IntN(3) == 0 && len(live) > 3 {
			// graph profile: everything but one or two random survivors goes in ONE batch (a survivor whose whole
			// out-neighbourhood disappears at once)
			r.Shuffle(len(live), func(i, j int) { live[i], live[j] = live[j], live[i] })
			for _, id := range live[:len(live)-1-r.IntN(2)] {
				if !seen[id] {
					seen[id] = true
					b.ids = append(b.ids, id)
				}
			}
		} else if r.IntN(10) == 0 && len(live) > 2 { // a whole neighbourhood at once; every other time the whole collection
			upto := len(live) - 1
			if r.IntN(2) == 0 {
				upto = len(live) // nothing is left: index structures with no entries (a graph entry node without edges)
			}
			r.Shuffle(len(live), func(i, j int) { live[i], live[j] = live[j], live[i] }) // the survivor is a random point
			for _, id := range live[:upto] {
				if !seen[id] {
					seen[id] = true
					b.ids = append(b.ids, id)
				}
			}
		}
		return b
	}
}

// noteApplied updates the bookkeeping after a batch that the code accepted.
func (g *genState) noteApplied(b batchSpec, okIds []uuid.UUID) {
	g.recent = g.recent[:0]
	for _, p := range b.points {
		g.recent = append(g.recent, p.id)
	}
	switch b.kind {
	case 0:
		for _, p := range b.points {
			g.sent[p.id] = p.doc
		}
	case 1:
		for _, p := range b.points {
			old, ok := g.sent[p.id]
			if !ok {
				continue
			}
			merged := Val{K: kMap, M: append([]KV{}, old.M...)}
			for _, kv := range p.doc.M {
				idx := -1
				for i := range merged.M {
					if merged.M[i].K == kv.K {
						idx = i
					}
				}
				if kv.V.K == kStr && kv.V.S == "_delete" {
					if idx >= 0 {
						merged.M = append(merged.M[:idx], merged.M[idx+1:]...)
					}
				} else if idx >= 0 {
					merged.M[idx].V = kv.V
				} else {
					merged.M = append(merged.M, kv)
				}
			}
			g.sent[p.id] = merged
		}
	case 2:
		for _, id := range b.ids {
			delete(g.sent, id)
		}
	}
}

// values currently stored at a path (for query generation)
// metricZeroUpdate: for dot / cosine vector indexes, sometimes replace the new vector of an update by one whose
// index distance to the STORED vector of that point is exactly 0 without being equal to it (dot: an orthogonal or
// the zero vector; cosine: another vector with dot product 1), or by the stored vector itself. "Distance 0" is
// "same vector" for euclidean only.
func (g *genState) metricZeroUpdate(id uuid.UUID, doc *Val) {
	r := g.r
	old, ok := g.sent[id]
	if !ok {
		return
	}
	for _, ix := range g.schema {
		if (ix.kind != ixVamana && ix.kind != ixFlat) || (ix.metric != "dot" && ix.metric != "cosine") || r.IntN(3) != 0 {
			continue
		}
		cur, found := old, true
		for _, seg := range strings.Split(ix.path, ".") {
			if cur.K != kMap {
				found = false
				break
			}
			nx, ok := cur.get(seg)
			if !ok {
				found = false
				break
			}
			cur = nx
		}
		if !found || cur.K != kArr || len(cur.A) != ix.dim || ix.dim < 2 {
			continue
		}
		ov := make([]float32, ix.dim)
		for i := range ov {
			ov[i] = math.Float32frombits(uint32(cur.A[i].Bits))
		}
		nv := make([]float32, ix.dim)
		k := r.IntN(4)
		if ix.metric == "cosine" && k == 0 {
			k = 1 // no zero vectors under cosine (normalisation divides by the norm)
		}
		switch k {
		case 0: // the zero vector
		case 1: // the stored vector again
			copy(nv, ov)
		default: // orthogonal: rotate the first two components
			nv[0], nv[1] = -ov[1], ov[0]
			if nv[0] == 0 && nv[1] == 0 {
				nv[0] = 1
				if ov[0] != 0 {
					nv[0], nv[1] = 0, 0
				}
			}
			if ix.metric == "cosine" {
				// dot product 1 with the stored vector: nv = ov / |ov|^2 over the first two components, only where
				// that is exact in float32 (|ov|^2 a power of two): the reference distances are exact rationals
				n2 := ov[0]*ov[0] + ov[1]*ov[1]
				if m, e := math.Frexp(float64(n2)); n2 > 0 && m == 0.5 && e > -20 && e < 20 {
					for i := range nv {
						nv[i] = 0
					}
					nv[0], nv[1] = ov[0]/n2, ov[1]/n2
				} else {
					copy(nv, ov)
				}
			}
		}
		setPath(doc, ix.path, vVec(nv))
		sortDoc(doc)
	}
}

func (g *genState) storedAt(path string) []Val {
	var out []Val
	for _, u := range g.pool {
		d, ok := g.sent[u]
		if !ok {
			continue
		}
		cur := d
		found := true
		for _, p := range strings.Split(path, ".") {
			if cur.K != kMap {
				found = false
				break
			}
			nx, ok := cur.get(p)
			if !ok {
				found = false
				break
			}
			cur = nx
		}
		if found {
			out = append(out, cur)
		}
	}
	return out
}
