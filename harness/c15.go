package main

// C15 -- partitioning of an insert batch over shards, per-shard limits and the
// two quotas. (a) cluster.VerifDistributePoints on random inputs around the
// limits; (b) sequences of CreateCollection / InsertPoints on a live
// single-node cluster around the quota boundaries. Observations are judged by
// coq/Run_C15.v.

import (
	"bytes"
	"encoding/binary"
	"errors"
	"fmt"
	"hash/fnv"
	"math/rand/v2"
	"os"
	"path/filepath"
	"sort"
	"strconv"
	"strings"

	"github.com/google/uuid"
	"github.com/semafind/semadb/cluster"
	"github.com/semafind/semadb/models"
	"github.com/semafind/semadb/shard"
)

func init() { subcmds["c15"] = runC15 }

func cListZ(xs []int64) string {
	var sb strings.Builder
	sb.WriteByte('[')
	for i, x := range xs {
		if i > 0 {
			sb.WriteByte(';')
		}
		if x < 0 {
			sb.WriteString("(" + strconv.FormatInt(x, 10) + ")")
		} else {
			sb.WriteString(strconv.FormatInt(x, 10))
		}
	}
	sb.WriteString("]%Z")
	return sb.String()
}

// c15Triples marks (by address) an insert request in which every id is named three times
var c15Triples uuid.UUID

func c15Uuid(r *rand.Rand) uuid.UUID {
	var u uuid.UUID
	binary.BigEndian.PutUint64(u[0:8], r.Uint64())
	binary.BigEndian.PutUint64(u[8:16], r.Uint64())
	return u
}

// msgpack of map[string]any{"x": int64(i)}: fixmap(1) fixstr(1) 'x' int64
func c15Doc(i int64) []byte {
	b := []byte{0x81, 0xa1, 'x', 0xd3, 0, 0, 0, 0, 0, 0, 0, 0}
	binary.BigEndian.PutUint64(b[4:], uint64(i))
	return b
}

func c15Fill(r *rand.Rand, limit int64, unit int64) (int64, string) {
	switch r.IntN(8) {
	case 0:
		return 0, "0"
	case 1:
		return max(limit-1, 0), "limit-1"
	case 2:
		return limit, "limit"
	case 3:
		return limit + 1 + int64(r.IntN(100)), "over"
	case 4: // room for exactly one unit
		return max(limit-unit, 0), "limit-unit"
	case 5: // room for one unit but not two
		return max(limit-2*unit+1, 0), "limit-2unit+1"
	default:
		if limit > 1<<20 {
			if r.IntN(2) == 0 {
				return int64(r.IntN(100000)), "mid"
			}
			return limit - int64(r.IntN(400)), "mid"
		}
		return int64(r.IntN(int(limit) + 1)), "mid"
	}
}

type c15Files struct {
	cfs []*caseFile
	n   int
}

func (f *c15Files) add(term string) {
	f.cfs[f.n%len(f.cfs)].Add(term)
	f.n++
}

func runC15(rc *runCtx) error {
	n := rc.n
	if n == 0 {
		n = 3000
		if rc.thorough() {
			n = 40000
		}
	}
	nseq := 30
	nfiles := 4
	if rc.thorough() {
		nseq = 400
		nfiles = 6
	}
	if rc.n != 0 {
		nseq = max(3, rc.n/100)
	}
	files := &c15Files{}
	for i := 0; i < nfiles; i++ {
		cf, err := newCaseFile(filepath.Join(rc.outDir, fmt.Sprintf("cases_C15_%02d.v", i)), []string{"Model_C15", "Run_C15"}, "c15case")
		if err != nil {
			return err
		}
		files.cfs = append(files.cfs, cf)
	}
	hist := map[string]int{}
	distinct := map[uint64]struct{}{}
	note := func(s string) {
		h := fnv.New64a()
		h.Write([]byte(s))
		distinct[h.Sum64()] = struct{}{}
	}
	if err := c15Direct(rc, n, files, hist, note); err != nil {
		return err
	}
	if err := c15EndToEnd(rc, nseq, files, hist, note); err != nil {
		return err
	}
	rc.stats["evaluations"] = files.n
	rc.stats["distinct"] = len(distinct)
	rc.stats["histogram"] = hist
	rc.stats["seed"] = rc.seed
	for _, cf := range files.cfs {
		if err := cf.Close("bad"); err != nil {
			return err
		}
	}
	return nil
}

// ---------------------------------------------------------------- direct

func c15Direct(rc *runCtx, n int, files *c15Files, hist map[string]int, note func(string)) error {
	r := newRng(rc.seed, 15)
	maxCounts := []int64{1, 2, 3, 5, 10, 1000}
	maxSizes := []int64{64, 200, 1000, 1 << 30}
	for it := 0; it < n; it++ {
		maxCount := maxCounts[r.IntN(len(maxCounts))]
		maxSize := maxSizes[r.IntN(len(maxSizes))]
		// the largest data length a point may have: len(Data)+16 <= maxSize
		maxData := int(min(maxSize-16, 984))
		// typical point size of this batch (drives the shard fill levels too)
		var typical int
		mode := r.IntN(6)
		switch mode {
		case 0: // one point fills a shard
			typical = maxData
		case 1: // exactly two fit an empty shard
			typical = max(int(maxSize/2)-16, 0)
		case 2: // two do not fit, one does
			typical = min(max(int(maxSize/2)-16+1, 0), maxData)
		case 3: // three fit
			typical = max(int(maxSize/3)-16, 0)
		case 4: // tiny points: the count limit binds
			typical = r.IntN(min(9, maxData+1))
		default:
			typical = r.IntN(maxData + 1)
		}
		if maxSize == 1<<30 {
			typical = min(typical, 984)
		}
		unit := int64(typical + 16)
		nsh := r.IntN(7)
		if r.IntN(10) == 0 {
			nsh = 0
		}
		shards := make([]cluster.VerifShardInfo, nsh)
		shardTerms := make([]string, nsh)
		for i := range shards {
			sz, k1 := c15Fill(r, maxSize, unit)
			ct, k2 := c15Fill(r, maxCount, 1)
			shards[i] = cluster.VerifShardInfo{Id: "s" + strconv.Itoa(i), Size: sz, PointCount: ct}
			shardTerms[i] = fmt.Sprintf("(%d,%d)", sz, ct)
			hist["fill size "+k1]++
			hist["fill count "+k2]++
		}
		// batch sizes 0..50; small batches are over-weighted (the judging cost is per numeral)
		var np int
		switch r.IntN(16) {
		case 0:
			np = 0
		case 1, 2:
			np = 1
		case 3, 4:
			np = 2 + r.IntN(3)
		case 5:
			np = 50 - r.IntN(2)
		case 6, 7, 8:
			np = r.IntN(51)
		default:
			np = r.IntN(13)
		}
		points := make([]models.Point, np)
		sizes := make([]int64, np)
		for j := range points {
			dl := typical
			switch r.IntN(6) {
			case 0:
				dl = r.IntN(maxData + 1)
			case 1:
				dl = min(typical+1, maxData)
			case 2:
				dl = max(typical-1, 0)
			}
			points[j] = models.Point{Id: c15Uuid(r), Data: make([]byte, dl)}
			sizes[j] = int64(len(points[j].Data) + len(points[j].Id))
			if sizes[j] > maxSize {
				return fmt.Errorf("generator produced a point that fits no empty shard")
			}
		}
		created := 0
		index := map[string]int{}
		for i, s := range shards {
			index[s.Id] = i
		}
		createFn := func() (string, error) {
			id := "new-" + strconv.Itoa(created)
			index[id] = nsh + created
			created++
			if created > np+1 {
				return "", fmt.Errorf("createShardFn called more often than there are points")
			}
			return id, nil
		}
		res, err := cluster.VerifDistributePoints(shards, points, maxSize, maxCount, createFn)
		if err != nil {
			return fmt.Errorf("distributePoints failed on shards=%v sizes=%v maxSize=%d maxCount=%d: %w", shards, sizes, maxSize, maxCount, err)
		}
		type obs struct{ idx, s, e int }
		var ob []obs
		for id, rg := range res {
			ix, ok := index[id]
			if !ok {
				return fmt.Errorf("distributePoints returned an unknown shard id %q", id)
			}
			ob = append(ob, obs{ix, rg[0], rg[1]})
		}
		sort.Slice(ob, func(a, b int) bool { return ob[a].idx < ob[b].idx })
		obTerms := make([]string, len(ob))
		for i, o := range ob {
			obTerms[i] = fmt.Sprintf("(%d,%d,%d)", o.idx, o.s, o.e)
		}
		term := fmt.Sprintf("CDist ([%s])%%Z %s %s %s [%s] %d", strings.Join(shardTerms, ";"), cListZ(sizes), cZ(maxSize), cZ(maxCount), strings.Join(obTerms, ";"), created)
		files.add(term)
		if np > 0 {
			note(term)
		}
		hist["dist shards="+strconv.Itoa(nsh)]++
		hist["dist batch "+bucket(np)]++
		hist["dist created "+bucket(created)]++
		hist["dist maxCount="+strconv.FormatInt(maxCount, 10)]++
		hist["dist maxSize="+strconv.FormatInt(maxSize, 10)]++
		hist["dist mode="+strconv.Itoa(mode)]++
		if it < 2 {
			rc.addSample(map[string]any{"kind": "distribute", "shards": shardTerms, "sizes": sizes, "maxSize": maxSize, "maxCount": maxCount, "assignment": obTerms, "created": created})
		}
	}
	return nil
}

func bucket(n int) string {
	switch {
	case n == 0:
		return "0"
	case n == 1:
		return "1"
	case n <= 4:
		return "2-4"
	case n <= 16:
		return "5-16"
	default:
		return "17+"
	}
}

// ---------------------------------------------------------------- end to end

func c15NewNode(dir string, port int, maxCount int64) (*cluster.ClusterNode, error) {
	return startNode(cluster.ClusterNodeConfig{
		RootDir:            dir,
		RpcHost:            "localhost",
		RpcPort:            port,
		RpcTimeout:         5,
		RpcRetries:         1,
		Servers:            []string{"localhost:" + strconv.Itoa(port)},
		ShardManager:       cluster.ShardManagerConfig{RootDir: filepath.Join(dir, "shard-root"), ShardTimeout: 60, MaxCacheSize: -1}, // not the node root: the two settings are independent
		MaxShardSize:       1 << 30,
		MaxShardPointCount: maxCount,
		MaxSearchLimit:     75,
	})
}

func c15EndToEnd(rc *runCtx, nseq int, files *c15Files, hist map[string]int, note func(string)) error {
	r := newRng(rc.seed, 1515)
	tmp, err := os.MkdirTemp("", "verif-c15-")
	if err != nil {
		return err
	}
	defer os.RemoveAll(tmp)
	// one live node per per-shard limit, shared by the sequences (every sequence has its own user)
	nodes := map[int64]*cluster.ClusterNode{}
	for i, mc := range []int64{1, 2, 5} {
		nd, err := c15NewNode(filepath.Join(tmp, fmt.Sprintf("node%d", mc)), 21500+i, mc)
		if err != nil {
			return err
		}
		defer nd.Close()
		nodes[mc] = nd
	}
	// one request whose range for ONE shard is long and fails at its very end: a stored id is sent again as the last
	// point in id order of 1300 (the shard refuses the range). The range is reported failed as a whole, so nothing of
	// it may stay behind: total = previous total + n - points of failed ranges
	{
		nd, err := c15NewNode(filepath.Join(tmp, "nodeL"), 21510, 5000)
		if err != nil {
			return err
		}
		defer nd.Close()
		user, colId := "userL", "col"
		plan := models.UserPlan{Name: "VERIF", MaxCollections: 2, MaxCollectionPointCount: 100000, MaxPointSize: 1000}
		if err := nd.CreateCollection(models.Collection{UserId: user, Id: colId, Replicas: 1, Timestamp: 1, CreatedAt: 1, UserPlan: plan, IndexSchema: models.IndexSchema{}}); err != nil {
			return fmt.Errorf("CreateCollection: %w", err)
		}
		totalL := func() (models.Collection, int64, error) {
			col, err := nd.GetCollection(user, colId)
			if err != nil {
				return col, 0, err
			}
			infos, err := nd.VerifGetShardsInfo(col)
			if err != nil {
				return col, 0, err
			}
			t := int64(0)
			for _, s := range infos {
				t += s.PointCount
			}
			return col, t, nil
		}
		last := uuid.Max
		col, _, err := totalL()
		if err != nil {
			return err
		}
		if failed, err := nd.InsertPoints(col, []models.Point{{Id: last, Data: c15Doc(0)}}); err != nil || len(failed) > 0 {
			return fmt.Errorf("InsertPoints: %v %v", err, failed)
		}
		for round, np := range []int{1300, 130} {
			col, before, err := totalL()
			if err != nil {
				return err
			}
			pts := make([]models.Point, np)
			for i := range pts {
				pts[i] = models.Point{Id: c15Uuid(r), Data: c15Doc(int64(i))}
			}
			pts[r.IntN(np)].Id = last
			failed, ierr := nd.InsertPoints(col, pts)
			if ierr != nil {
				return fmt.Errorf("InsertPoints: %w", ierr)
			}
			fp := int64(0)
			for _, f := range failed {
				fp += int64(f.End - f.Start)
			}
			_, after, err := totalL()
			if err != nil {
				return err
			}
			files.add(fmt.Sprintf("CInsert %s %s %s %s %s %s", cZ(before), cZ(int64(np)), cZ(100000), cBool(false), cZ(after), cZ(fp)))
			hist["insert of a long range that fails at its end"]++
			note(fmt.Sprintf("longfail|%d|%d|%d", round, np, fp))
		}
	}
	for seq := 0; seq < nseq; seq++ {
		maxCount := []int64{1, 2, 5}[seq%3]
		node := nodes[maxCount]
		user := fmt.Sprintf("user%d", seq)
		maxCols := 1 + r.IntN(3)
		quota := int64(1 + r.IntN(12))
		if seq%7 == 6 {
			quota = 0
		}
		plan := models.UserPlan{Name: "VERIF", MaxCollections: maxCols, MaxCollectionPointCount: quota, MaxPointSize: 1000}
		countCols := func() (int64, error) {
			cols, err := node.ListCollections(user)
			return int64(len(cols)), err
		}
		// ---- collection creations around the per-user quota, with re-creations
		existing := map[string]bool{}
		var created []string
		attempts := 2*maxCols + 3
		for a := 0; a < attempts; a++ {
			var id string
			switch {
			case len(created) > 0 && r.IntN(3) == 0:
				id = created[r.IntN(len(created))] // re-create an existing one
			default:
				id = fmt.Sprintf("col%d", r.IntN(maxCols+2))
			}
			before, err := countCols()
			if err != nil {
				return err
			}
			// the plan travels with every request: one time in three it is a different one (a downgrade below the
			// number of collections the user already has, zero, one more)
			mc := maxCols
			if r.IntN(3) == 0 {
				mc = []int{0, 1, int(before) - 1, int(before), int(before) + 1, int(before) - 2}[r.IntN(6)]
				if mc < 0 {
					mc = 0
				}
			}
			reqPlan := plan
			reqPlan.MaxCollections = mc
			cerr := node.CreateCollection(models.Collection{UserId: user, Id: id, Replicas: 1, Timestamp: 1, CreatedAt: 1, UserPlan: reqPlan, IndexSchema: models.IndexSchema{}})
			refQ, refE := errors.Is(cerr, cluster.ErrQuotaReached), errors.Is(cerr, cluster.ErrExists)
			if cerr != nil && !refQ && !refE {
				return fmt.Errorf("CreateCollection: %w", cerr)
			}
			after, err := countCols()
			if err != nil {
				return err
			}
			term := fmt.Sprintf("CCreate %s %s %s %s %s %s", cZ(before), cZ(int64(mc)), cBool(existing[id]), cBool(refQ), cBool(refE), cZ(after))
			files.add(term)
			note(fmt.Sprintf("create|%d|%d|%v", before, mc, existing[id]))
			switch {
			case refE:
				hist["create refused: exists"]++
			case refQ:
				hist["create refused: quota"]++
			default:
				hist["create ok"]++
				existing[id] = true
				created = append(created, id)
			}
			if seq == 0 && a < 2 {
				rc.addSample(map[string]any{"kind": "create", "countBefore": before, "maxCollections": maxCols, "existed": existing[id] && cerr != nil, "quotaReached": refQ, "alreadyExists": refE, "countAfter": after})
			}
		}
		if len(created) == 0 {
			return fmt.Errorf("no collection could be created for %s (maxCollections=%d)", user, maxCols)
		}
		// ---- inserts around the per-collection point quota
		colId := created[r.IntN(len(created))]
		total := func() (models.Collection, int64, []int64, error) {
			col, err := node.GetCollection(user, colId)
			if err != nil {
				return col, 0, nil, err
			}
			infos, err := node.VerifGetShardsInfo(col)
			if err != nil {
				return col, 0, nil, err
			}
			t := int64(0)
			counts := make([]int64, len(infos))
			for i, s := range infos {
				t += s.PointCount
				counts[i] = s.PointCount
			}
			return col, t, counts, nil
		}
		var someId *uuid.UUID
		var sentIds []uuid.UUID
		docNo := int64(0)
		insert := func(np int, dupOf *uuid.UUID) error {
			col, before, _, err := total()
			if err != nil {
				return err
			}
			if np < 0 {
				np = 0 // the collection is already above its quota (an earlier batch was wrongly accepted and is judged as such)
			}
			points := make([]models.Point, np)
			for i := range points {
				points[i] = models.Point{Id: c15Uuid(r), Data: c15Doc(docNo)}
				docNo++
			}
			if dupOf != nil && np == 1 {
				points[0].Id = *dupOf
			}
			if dupOf == &c15Triples {
				// every id three times: in id order each range of two or more points names an id twice
				for i := range points {
					points[i].Id = points[i-i%3].Id
				}
			}
			var firstId uuid.UUID
			if np > 0 {
				firstId = points[0].Id
			}
			for _, p := range points {
				sentIds = append(sentIds, p.Id)
			}
			infosBefore, err := node.VerifGetShardsInfo(col)
			if err != nil {
				return err
			}
			// InsertPoints sorts its argument in place: the request order and the id order are kept apart here
			sorted := append([]models.Point{}, points...)
			sort.Slice(sorted, func(a, b int) bool { return bytes.Compare(sorted[a].Id[:], sorted[b].Id[:]) < 0 })
			failed, ierr := node.InsertPoints(col, append([]models.Point{}, points...))
			refused := errors.Is(ierr, cluster.ErrQuotaReached)
			if ierr != nil && !refused {
				return fmt.Errorf("InsertPoints: %w", ierr)
			}
			failedPoints := int64(0)
			for _, f := range failed {
				failedPoints += int64(f.End - f.Start)
			}
			_, after, counts, err := total()
			if err != nil {
				return err
			}
			term := fmt.Sprintf("CInsert %s %s %s %s %s %s", cZ(before), cZ(int64(np)), cZ(quota), cBool(refused), cZ(after), cZ(failedPoints))
			files.add(term)
			if dupOf == &c15Triples {
				hist[fmt.Sprintf("insert with every id named three times (several refused ranges), failed points=%d", failedPoints)]++
			}
			if dupOf != nil && np == 1 {
				// the id is already stored in the shard this one-point range goes to
				files.add(fmt.Sprintf("CDupInsert %s %s %s", cZ(before), cZ(after), cZ(failedPoints)))
				hist["insert of a stored id"]++
			}
			files.add(fmt.Sprintf("CShardCounts %s %s", cListZ(counts), cZ(maxCount)))
			if !refused && failedPoints == 0 && np > 0 && dupOf == nil {
				// which positions of the id-sorted batch each shard of the collection holds now (each shard asked directly)
				colAfter, err := node.GetCollection(user, colId)
				if err != nil {
					return err
				}
				pos := map[uuid.UUID]int{}
				ids := make([]uuid.UUID, len(sorted))
				sizes := make([]int64, len(sorted))
				for i, p := range sorted {
					pos[p.Id] = i
					ids[i] = p.Id
					sizes[i] = int64(len(p.Data)) + 16
				}
				stored := make([]string, len(colAfter.ShardIds))
				spread := 0
				for k, sid := range colAfter.ShardIds {
					var here []int64
					derr := node.VerifShardManager().DoWithShard(colAfter, sid, func(sh *shard.Shard) error {
						res, err := sh.SearchPoints(models.SearchRequest{Query: c17IdAny(ids)})
						if err != nil {
							return err
						}
						for _, x := range res {
							here = append(here, int64(pos[x.Id]))
						}
						return nil
					})
					if derr != nil {
						return fmt.Errorf("reading shard %s: %w", sid, derr)
					}
					sort.Slice(here, func(a, b int) bool { return here[a] < here[b] })
					if len(here) > 0 {
						spread++
					}
					stored[k] = strings.ReplaceAll(cListZ(here), "%Z", "%N")
				}
				before := make([]string, len(infosBefore))
				for k, in := range infosBefore {
					before[k] = fmt.Sprintf("(%s, %s)", cZ(in.Size), cZ(in.PointCount))
				}
				files.add(fmt.Sprintf("CLive %s %s %s %s %s", pList(before), cListZ(sizes), cZ(1<<30), cZ(maxCount), pList(stored)))
				hist[fmt.Sprintf("stored ranges judged, batch over %s shards", map[bool]string{true: "2+", false: "1"}[spread > 1])]++
			}
			note(fmt.Sprintf("insert|%d|%d|%d|%d|%d", before, np, quota, maxCount, failedPoints))
			switch {
			case refused:
				hist["insert refused: quota"]++
			case failedPoints > 0:
				hist["insert ok with failed range"]++
			default:
				hist["insert ok"]++
			}
			hist["insert total+n-quota="+bucketRel(before+int64(np)-quota)]++
			if !refused && failedPoints == 0 && np > 0 && someId == nil {
				someId = &firstId
			}
			if len(rc.samples) < 6 && (refused || seq == 1) {
				rc.addSample(map[string]any{"kind": "insert", "totalBefore": before, "n": np, "quota": quota, "maxShardPointCount": maxCount, "refused": refused, "totalAfter": after, "shardCounts": counts, "failedPoints": failedPoints})
			}
			return nil
		}
		cur := func() int64 { _, t, _, _ := total(); return t }
		// an empty batch, a first batch somewhere below the quota, one that would end at quota+1
		// (refused), one that ends at quota-1, then exactly quota, then one more point (refused)
		if err := insert(0, nil); err != nil {
			return err
		}
		if maxCount == 2 && quota >= 6 {
			// six points, every id three times, into the empty collection: three fresh shards get the ranges (x,x) (x,y)
			// (y,y); the first and the last are refused by their shard (an id twice in one batch), so TWO ranges are
			// reported failed and the total is the two points of the middle range
			if err := insert(6, &c15Triples); err != nil {
				return err
			}
		}
		if dupStep := maxCount >= 2 && quota >= 2 && seq%2 == 0; dupStep {
			// small enough to stay in the first shard and leave room there and in the quota
			if err := insert(1+r.IntN(int(min(maxCount, quota))-1), nil); err != nil {
				return err
			}
		} else if quota > 2 {
			if err := insert(r.IntN(int(quota-1)), nil); err != nil {
				return err
			}
		}
		// a batch of one point whose id already exists, while everything still lives in the
		// first shard and that shard has room: the shard refuses it, the range is reported
		// failed and the total must not move
		if t := cur(); someId != nil && t < maxCount && quota-t >= 1 && seq%2 == 0 {
			if err := insert(1, someId); err != nil {
				return err
			}
		}
		if err := insert(int(quota-cur()+1), nil); err != nil {
			return err
		}
		if quota-cur() >= 2 {
			if err := insert(int(quota-cur()-1), nil); err != nil {
				return err
			}
		}
		if err := insert(int(quota-cur()), nil); err != nil {
			return err
		}
		if err := insert(1, nil); err != nil {
			return err
		}
		if err := insert(1+r.IntN(4), nil); err != nil {
			return err
		}
		// the reported total against the points actually stored: every id sent so far is looked up on its own
		{
			col, reported, _, err := total()
			if err != nil {
				return err
			}
			stored := int64(0)
			seen := map[uuid.UUID]bool{}
			for _, id := range sentIds {
				if seen[id] {
					continue
				}
				seen[id] = true
				res, err := node.SearchPoints(col, models.SearchRequest{Query: c17IdAny([]uuid.UUID{id}), Limit: 1})
				if err != nil {
					return fmt.Errorf("SearchPoints: %w", err)
				}
				stored += int64(len(res))
			}
			files.add(fmt.Sprintf("CStored %s %s", cZ(reported), cZ(stored)))
			hist["stored-vs-reported comparisons"]++
		}
		hist["e2e sequences maxShardPointCount="+strconv.FormatInt(maxCount, 10)]++
	}
	return nil
}

func bucketRel(d int64) string {
	switch {
	case d < -1:
		return "<-1"
	case d == -1:
		return "-1"
	case d == 0:
		return "0"
	case d == 1:
		return "+1"
	default:
		return ">+1"
	}
}
