package main

// C20, stream pq -- the product quantiser of shard/vectorstore/product.go.
//
// A store is built with vectorstore.New over a memory bucket (metric euclidean, dot
// or cosine; 1, 2 or 4 sub-vectors; 2..8 centroids; dimension 2..16), filled up to the
// trigger threshold, trained with Fit, and then written to again (new points, updates
// of trained points). The trained centroids, the centroid distance table and the
// centroid ids of points are read through the accessors of export_verif.go.
// Recorded (see coq/Run_C20.v):
//   CPqTable  the whole centroid distance table against the centroids
//   CPqCode   vector and centroid ids of every point written AFTER training
//   CPqPair   centroid ids of two points, DistanceFromPoint(a)(b) and (b)(a)
//   CPqQuery  a query vector, and for some points their ids and DistanceFromFloat(q)(b)
// Vectors are small integers and half integers, so that on stores whose centroids are
// such values too (training sets made of K prototypes per sub-vector) every float32
// operation is exact and Coq compares exactly; on the other stores (centroids = means
// of arbitrary clusters) Coq allows the float32 rounding of the sums.
// Training is not repeatable: k-means seeds itself from the process-global generator
// and iterates over a Go map; the verdicts only use what was observed.

import (
	"fmt"
	"math"

	"github.com/semafind/semadb/diskstore"
	"github.com/semafind/semadb/models"
	"github.com/semafind/semadb/shard/vectorstore"
)

type c20pqStore struct {
	metric     string
	mcode      int
	dim, m, k  int
	sl         int
	prototypes bool
}

func c20pqBits(v []float32) []uint64 {
	b := make([]uint64, len(v))
	for i, x := range v {
		b[i] = uint64(math.Float32bits(x))
	}
	return b
}

func c20pqCodes(c []uint8) []uint64 {
	b := make([]uint64, len(c))
	for i, x := range c {
		b[i] = uint64(x)
	}
	return b
}

// multiple of 1/2 of magnitude at most 8
func c20pqHalfGrid(x float32) bool {
	return x == float32(math.Trunc(float64(x)*2))/2 && x >= -8 && x <= 8
}

func c20PQStream(rc *runCtx, fs *c20Files, note func(kind, key string), hist map[string]int) error {
	rg := newRng(rc.seed, 23)
	rounds := 1
	if rc.thorough() {
		rounds = 12
	}
	// coordinate: integers and half integers in [-4, 4], zero and +-1 favoured
	coord := func() float32 {
		switch rg.IntN(8) {
		case 0, 1:
			return 0
		case 2:
			return float32(1 - 2*rg.IntN(2))
		case 3, 4:
			return float32(rg.IntN(9) - 4)
		default:
			return float32(rg.IntN(17)-8) / 2
		}
	}
	subVec := func(sl int) []float32 {
		s := make([]float32, sl)
		switch rg.IntN(6) {
		case 0: // zero sub-vector
		case 1: // along one axis
			s[rg.IntN(sl)] = coord()
		default:
			for i := range s {
				s[i] = coord()
			}
		}
		return s
	}
	eq := func(a, b []float32) bool {
		for i := range a {
			if a[i] != b[i] {
				return false
			}
		}
		return true
	}
	var stores []c20pqStore
	for round := 0; round < rounds; round++ {
		kk := round
		for mi, metric := range []string{models.DistanceEuclidean, models.DistanceDot, models.DistanceCosine} {
			for dim := 2; dim <= 16; dim++ {
				for _, m := range []int{1, 2, 4} {
					if dim%m != 0 {
						continue
					}
					stores = append(stores, c20pqStore{metric: metric, mcode: mi, dim: dim, m: m, k: 2 + kk%7, sl: dim / m,
						prototypes: (kk/7+dim+m+mi)%2 == 0})
					kk++
				}
			}
		}
	}
	if rc.n > 0 && rc.n < len(stores) {
		rg.Shuffle(len(stores), func(i, j int) { stores[i], stores[j] = stores[j], stores[i] })
		stores = stores[:rc.n]
	}
	nExact, nTol := 0, 0
	for si, st := range stores {
		// own generator per store: what training turns out to be (not repeatable) steers later
		// draws of that store only
		rg = newRng(rc.seed, 2300+uint64(si))
		fileNo := si % len(fs.files)
		cf := fs.files[fileNo]
		add := func(term string) {
			cf.Add(term)
			fs.next++
		}
		tag := fmt.Sprintf("%s/m%d", st.metric, st.m)
		sl, m, K := st.sl, st.m, st.k
		// ---------------- training set
		n0 := 2*K + rg.IntN(25)
		train := make([][]float32, n0)
		if st.prototypes {
			// K distinct prototypes per sub-vector; every prototype occurs; with sl = 1 and few
			// distinct values there may be fewer than K: the rest are repeated (duplicate centroids)
			protos := make([][][]float32, m)
			for i := 0; i < m; i++ {
				for tries := 0; len(protos[i]) < K && tries < 200; tries++ {
					s := subVec(sl)
					dup := false
					for _, p := range protos[i] {
						dup = dup || eq(p, s)
					}
					if !dup {
						protos[i] = append(protos[i], s)
					}
				}
			}
			for r := range train {
				v := make([]float32, 0, st.dim)
				for i := 0; i < m; i++ {
					idx := rg.IntN(len(protos[i]))
					if r < K {
						idx = (r + i) % len(protos[i])
					}
					v = append(v, protos[i][idx]...)
				}
				train[r] = v
			}
		} else {
			for r := range train {
				if r > 0 && rg.IntN(6) == 0 {
					train[r] = append([]float32(nil), train[rg.IntN(r)]...) // duplicate
					continue
				}
				v := make([]float32, 0, st.dim)
				for i := 0; i < m; i++ {
					v = append(v, subVec(sl)...)
				}
				train[r] = v
			}
		}
		// ---------------- the store
		bucket := diskstore.NewMemBucket(false)
		quant := &models.Quantizer{Type: models.QuantizerProduct,
			Product: &models.ProductQuantizerParameters{NumCentroids: K, NumSubVectors: m, TriggerThreshold: n0}}
		vs, err := vectorstore.New(quant, bucket, st.metric, st.dim)
		if err != nil {
			return fmt.Errorf("pq store %v: %w", st, err)
		}
		vectors := map[uint64][]float32{} // what the harness wrote (the store gets copies: k-means writes into them)
		post := map[uint64]bool{}
		set := func(id uint64, v []float32) error {
			vectors[id] = v
			_, err := vs.Set(id, append([]float32(nil), v...))
			return err
		}
		for r, v := range train {
			if r == n0-1 {
				if err := vs.Fit(); err != nil { // below the trigger: no training
					return err
				}
			}
			if err := set(uint64(r+1), v); err != nil {
				return err
			}
		}
		if err := vs.Fit(); err != nil {
			return err
		}
		cents0, table0, ok := vectorstore.VerifPQState(vs)
		if !ok {
			return fmt.Errorf("pq store %v: not a product quantiser", st)
		}
		if len(cents0) == 0 {
			return fmt.Errorf("pq store %v: not trained at %d points (trigger %d)", st, n0, n0)
		}
		cents := append([]float32(nil), cents0...)
		table := append([]float32(nil), table0...)
		centroid := func(i, j int) []float32 { return cents[(i*K+j)*sl : (i*K+j+1)*sl] }
		// ---------------- writes after training
		randomVec := func() []float32 {
			v := make([]float32, 0, st.dim)
			for i := 0; i < m; i++ {
				v = append(v, subVec(sl)...)
			}
			return v
		}
		// a sub-vector orthogonal to centroid j of sub-vector i, if its entries allow exact arithmetic
		orthogonal := func(i, j int) ([]float32, bool) {
			c := centroid(i, j)
			s := make([]float32, sl)
			if sl < 2 {
				return s, false
			}
			p := rg.IntN(sl)
			q := (p + 1 + rg.IntN(sl-1)) % sl
			if !c20pqHalfGrid(c[p]) || !c20pqHalfGrid(c[q]) || c[p] > 4 || c[p] < -4 || c[q] > 4 || c[q] < -4 {
				return s, false
			}
			t := float32(1 - 2*rg.IntN(2))
			if c[p] == 0 && c[q] == 0 {
				s[p], s[q] = t, coord()
			} else {
				s[p], s[q] = t*c[q], -t*c[p]
			}
			// coordinates where the centroid is zero are free
			for d := range s {
				if d != p && d != q && c[d] == 0 && rg.IntN(2) == 0 {
					s[d] = coord()
				}
			}
			return s, true
		}
		next := uint64(n0 + 1)
		npost := 8
		for t := 0; t < npost; t++ {
			var v []float32
			kind := "random"
			switch t {
			case 0, 1, 2: // one sub-vector orthogonal to a centroid
				v = randomVec()
				i, j := rg.IntN(m), 0
				if rg.IntN(2) == 0 {
					j = rg.IntN(K)
				}
				if s, ok := orthogonal(i, j); ok {
					copy(v[i*sl:], s)
					kind = "orthogonal-to-centroid"
				}
			case 3: // duplicate of a vector written before
				v = append([]float32(nil), vectors[uint64(1+rg.IntN(int(next)-1))]...)
				kind = "duplicate"
			case 4: // made of centroids, when these are small half integers
				v = make([]float32, 0, st.dim)
				kind = "centroids"
				for i := 0; i < m; i++ {
					c := centroid(i, rg.IntN(K))
					for _, x := range c {
						if !c20pqHalfGrid(x) {
							kind = "random"
						}
					}
					v = append(v, c...)
				}
				if kind == "random" {
					v = randomVec()
				}
			case 5: // zero vector / zero sub-vector
				v = randomVec()
				if rg.IntN(3) == 0 {
					v = make([]float32, st.dim)
				} else {
					i := rg.IntN(m)
					copy(v[i*sl:(i+1)*sl], make([]float32, sl))
				}
				kind = "zero-subvector"
			default:
				v = randomVec()
			}
			id := next
			if t >= npost-2 { // update of a point that was there at training time
				id = uint64(1 + rg.IntN(n0))
				kind = "update/" + kind
			} else {
				next++
			}
			if err := set(id, v); err != nil {
				return err
			}
			post[id] = true
			hist["pq/write-after-training/"+kind]++
		}
		// a second Fit must leave the trained state alone; use whatever is there now
		if err := vs.Fit(); err != nil {
			return err
		}
		if c2, t2, _ := vectorstore.VerifPQState(vs); len(c2) == len(cents) && len(t2) == len(table) {
			copy(cents, c2)
			copy(table, t2)
		} else {
			cents, table = append([]float32(nil), c2...), append([]float32(nil), t2...)
		}
		onGrid := true
		for _, x := range cents {
			onGrid = onGrid && x == float32(math.Trunc(float64(x)*8))/8 && x >= -16 && x <= 16
		}
		if onGrid {
			nExact++
			hist["pq/arith/exact-grid-store"]++
		} else {
			nTol++
			hist["pq/arith/rounded-centroids-store"]++
		}
		hist[fmt.Sprintf("pq/centroids=%d", K)]++
		hist[fmt.Sprintf("pq/dim=%d", st.dim)]++
		centsAux := cf.Aux("list N", cListN(c20pqBits(cents)))
		tableAux := cf.Aux("list N", cListN(c20pqBits(table)))
		head := func(cAux string) string { return fmt.Sprintf("%d %d %d %d %s", st.mcode, m, K, sl, cAux) }
		add(fmt.Sprintf("CPqTable %s %s", head(centsAux), tableAux))
		note("pq/table/"+tag, fmt.Sprint(si, cents))
		// ---------------- codes of the points written after training
		codesOf := func(store vectorstore.VectorStore, id uint64) (vectorstore.VectorStorePoint, []uint64, error) {
			p, err := store.Get(id)
			if err != nil {
				return nil, nil, fmt.Errorf("pq store %v: point %d: %w", st, id, err)
			}
			c, ok := vectorstore.VerifPQCodes(p)
			if !ok {
				return nil, nil, fmt.Errorf("pq store %v: point %d is not a product quantised point", st, id)
			}
			return p, c20pqCodes(c), nil
		}
		nAll := int(next) - 1
		for id := uint64(1); id <= uint64(nAll); id++ {
			if !post[id] {
				continue
			}
			_, code, err := codesOf(vs, id)
			if err != nil {
				return err
			}
			add(fmt.Sprintf("CPqCode %s %s %s", head(centsAux), cListN(c20pqBits(vectors[id])), cListN(code)))
			note("pq/code/"+tag, fmt.Sprint(si, id, vectors[id]))
			if si%20 == 1 && id == uint64(n0+1) {
				rc.addSample(map[string]any{"kind": "pq/code", "metric": st.metric, "dim": st.dim, "subvectors": m, "centroids": K,
					"vector": vectors[id], "code": code, "flat_centroids": cents})
			}
		}
		// ---------------- pairs and queries
		pairs := func(store vectorstore.VectorStore, cAux string, npairs int, label string) error {
			for t := 0; t < npairs; t++ {
				a, b := uint64(1+rg.IntN(nAll)), uint64(1+rg.IntN(nAll))
				switch t {
				case 0:
					b = a
				case 1: // one written after training, one before
					a, b = uint64(n0+1+rg.IntN(nAll-n0)), uint64(1+rg.IntN(n0))
				}
				pa, ca, err := codesOf(store, a)
				if err != nil {
					return err
				}
				pb, cb, err := codesOf(store, b)
				if err != nil {
					return err
				}
				if t == 2 || t == 3 { // look for a partner that shares a centroid with a in some sub-vector
					for off := 1; off <= nAll; off++ {
						b2 := uint64(1 + (int(a)-1+off)%nAll)
						pb2, cb2, err := codesOf(store, b2)
						if err != nil {
							return err
						}
						share := false
						for i := range ca {
							share = share || (i < len(cb2) && ca[i] == cb2[i])
						}
						if share && b2 != a {
							b, pb, cb = b2, pb2, cb2
							break
						}
					}
				}
				dAB := uint64(math.Float32bits(store.DistanceFromPoint(pa)(pb)))
				dBA := uint64(math.Float32bits(store.DistanceFromPoint(pb)(pa)))
				add(fmt.Sprintf("CPqPair %s %s %s %d %d", head(cAux), cListN(ca), cListN(cb), dAB, dBA))
				note("pq/pair/"+label+tag, fmt.Sprint(si, ca, cb))
				shared := 0
				for i := range ca {
					if i < len(cb) && ca[i] == cb[i] {
						shared++
					}
				}
				switch {
				case shared == len(ca):
					hist["pq/pair/same-code"]++
				case shared > 0:
					hist["pq/pair/share-a-centroid"]++
				default:
					hist["pq/pair/no-common-centroid"]++
				}
				if si%20 == 2 && t == 2 && label == "" {
					rc.addSample(map[string]any{"kind": "pq/pair", "metric": st.metric, "dim": st.dim, "subvectors": m, "centroids": K,
						"code_a": ca, "code_b": cb, "dist_ab": math.Float32frombits(uint32(dAB)), "dist_ba": math.Float32frombits(uint32(dBA))})
				}
			}
			return nil
		}
		queries := func(store vectorstore.VectorStore, cAux string, nq int, label string) error {
			for t := 0; t < nq; t++ {
				var q []float32
				kind := "random"
				switch t {
				case 0:
					q = append([]float32(nil), vectors[uint64(n0+1+rg.IntN(nAll-n0))]...)
					kind = "stored-vector"
				case 1:
					q = randomVec()
					i := rg.IntN(m)
					if s, ok := orthogonal(i, rg.IntN(K)); ok {
						copy(q[i*sl:], s)
						kind = "orthogonal-to-centroid"
					}
				case 2:
					q = make([]float32, st.dim)
					kind = "zero"
				default:
					q = randomVec()
				}
				df := store.DistanceFromFloat(append([]float32(nil), q...))
				obs := make([]string, 0, 3)
				for o := 0; o < 3; o++ {
					pb, cb, err := codesOf(store, uint64(1+rg.IntN(nAll)))
					if err != nil {
						return err
					}
					obs = append(obs, fmt.Sprintf("(%s, %d)", cListN(cb), uint64(math.Float32bits(df(pb)))))
				}
				add(fmt.Sprintf("CPqQuery %s %s %s", head(cAux), cListN(c20pqBits(q)), cList(obs)))
				note("pq/query/"+label+tag, fmt.Sprint(si, q, obs))
				hist["pq/query/"+kind]++
			}
			return nil
		}
		if err := pairs(vs, centsAux, 8, ""); err != nil {
			return err
		}
		if err := queries(vs, centsAux, 4, ""); err != nil {
			return err
		}
		// ---------------- flushed and opened again: centroids, table and codes come from the bucket
		if si%3 == 0 {
			if err := vs.Flush(); err != nil {
				return err
			}
			vs2, err := vectorstore.New(quant, bucket, st.metric, st.dim)
			if err != nil {
				return err
			}
			c2, t2, _ := vectorstore.VerifPQState(vs2)
			cAux, same := centsAux, len(c2) == len(cents) && len(t2) == len(table)
			for i := 0; same && i < len(c2); i++ {
				same = math.Float32bits(c2[i]) == math.Float32bits(cents[i])
			}
			for i := 0; same && i < len(t2); i++ {
				same = math.Float32bits(t2[i]) == math.Float32bits(table[i])
			}
			if !same { // judged on what the reopened store holds
				cAux = cf.Aux("list N", cListN(c20pqBits(c2)))
				tAux := cf.Aux("list N", cListN(c20pqBits(t2)))
				add(fmt.Sprintf("CPqTable %s %s", head(cAux), tAux))
				note("pq/table/reopened/"+tag, fmt.Sprint(si, c2))
				hist["pq/reopened/state-differs"]++
			}
			if err := pairs(vs2, cAux, 4, "reopened/"); err != nil {
				return err
			}
			if err := queries(vs2, cAux, 2, "reopened/"); err != nil {
				return err
			}
			hist["pq/reopened-stores"]++
		}
	}
	rc.stats["pq_stream"] = map[string]any{"stores": len(stores), "stores_exact_grid": nExact, "stores_rounded_centroids": nTol,
		"note": "training is not repeatable (k-means seeds itself from the process-global generator, map iteration order); verdicts use the observed centroids"}
	return nil
}
