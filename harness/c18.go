package main

// C18 -- no request crashes the server; invalid input is refused without side effects.
//
// The parent (sub-command c18) generates the exchanges: valid requests of every endpoint of both
// API versions in JSON and MessagePack, the structured mutation of every node of every valid
// request, raw and byte-mutated bodies, header / method / URI / content-type variations, and the
// designated requests of the confirmed defects.  Batches of exchanges are executed by child
// processes (sub-command c18child, self-exec) so that a crash of the serving process is an
// observation.  A child builds an in-process cluster node with fixture collections, assembles the
// HTTP stack exactly like httpapi.setupRouter (plus a panic counter right inside Recover), and for
// every exchange records: how the layers of the stack see the request (route, headers, URI,
// content type, the body as decoded by the same decoders DecodeValid uses, abstracted for
// coq/Model_C18.v), the status code, recovered panics, and whether the digest of all collections
// changed.  coq/Run_C18.v judges the cases.

import (
	"bytes"
	"crypto/sha256"
	"encoding/hex"
	"fmt"
	"math"
	"net/http"
	"sort"
	"strings"
	"sync/atomic"

	"github.com/google/uuid"
	"github.com/semafind/semadb/cluster"
	"github.com/semafind/semadb/httpapi/middleware"
	httpv1 "github.com/semafind/semadb/httpapi/v1"
	httpv2 "github.com/semafind/semadb/httpapi/v2"
	"github.com/semafind/semadb/models"
	"github.com/semafind/semadb/shard"
	"github.com/vmihailenco/msgpack/v5"
)

func init() {
	subcmds["c18"] = runC18
	subcmds["c18child"] = runC18Child
}

// ---------------------------------------------------------------- plans, users, fixture

var c18Plans = map[string]models.UserPlan{
	"BASIC": {Name: "BASIC", MaxCollections: 12, MaxCollectionPointCount: 100000, MaxPointSize: 2000, ShardBackupFrequency: 3600, ShardBackupCount: 1},
	"BIG":   {Name: "BIG", MaxCollections: 3, MaxCollectionPointCount: 10, MaxPointSize: 1 << 20, ShardBackupFrequency: 3600, ShardBackupCount: 1},
	"TINY":  {Name: "TINY", MaxCollections: 2, MaxCollectionPointCount: 5, MaxPointSize: 200, ShardBackupFrequency: 3600, ShardBackupCount: 1},
	"MID":   {Name: "MID", MaxCollections: 3, MaxCollectionPointCount: 1500, MaxPointSize: 2000, ShardBackupFrequency: 3600, ShardBackupCount: 1},
}

// every user the exchanges may name; the digest covers all of them
var c18Users = map[string]string{"alice": "BASIC", "bob": "BIG", "vone": "BASIC", "tina": "TINY", "nancy": "BASIC", "zed": "BASIC", "mia": "MID"}

func c18Id(n int) uuid.UUID {
	return uuid.MustParse(fmt.Sprintf("00000000-0000-4000-8000-%012x", n))
}

func c18RichSchema() models.IndexSchema {
	return models.IndexSchema{
		"vec":      {Type: "vectorVamana", VectorVamana: &models.IndexVectorVamanaParameters{VectorSize: 4, DistanceMetric: "euclidean", SearchSize: 75, DegreeBound: 64, Alpha: 1.2}},
		"flat":     {Type: "vectorFlat", VectorFlat: &models.IndexVectorFlatParameters{VectorSize: 3, DistanceMetric: "cosine"}},
		"desc":     {Type: "text", Text: &models.IndexTextParameters{Analyser: "standard"}},
		"cat":      {Type: "string", String: &models.IndexStringParameters{CaseSensitive: false}},
		"labels":   {Type: "stringArray", StringArray: &models.IndexStringArrayParameters{}},
		"size":     {Type: "integer"},
		"price":    {Type: "float"},
		"nested.v": {Type: "vectorFlat", VectorFlat: &models.IndexVectorFlatParameters{VectorSize: 2, DistanceMetric: "euclidean"}},
		"nested.n": {Type: "integer"},
	}
}

func c18DottedSchema() models.IndexSchema {
	return models.IndexSchema{
		"geo.vec":    {Type: "vectorVamana", VectorVamana: &models.IndexVectorVamanaParameters{VectorSize: 3, DistanceMetric: "euclidean", SearchSize: 75, DegreeBound: 64, Alpha: 1.2}},
		"geo.flat":   {Type: "vectorFlat", VectorFlat: &models.IndexVectorFlatParameters{VectorSize: 2, DistanceMetric: "dot"}},
		"geo.name":   {Type: "string", String: &models.IndexStringParameters{CaseSensitive: true}},
		"meta.tags":  {Type: "stringArray", StringArray: &models.IndexStringArrayParameters{}},
		"meta.count": {Type: "integer"},
		"meta.score": {Type: "float"},
		"meta.text":  {Type: "text", Text: &models.IndexTextParameters{Analyser: "standard"}},
	}
}

func c18RichDoc(i int) models.PointAsMap {
	f := float32(i)
	return models.PointAsMap{
		"vec":    []float32{f, 1, f / 2, -1},
		"flat":   []float32{1, f + 1, 2},
		"desc":   []string{"alpha beta gamma", "beta delta", "gamma epsilon alpha", "zeta"}[i%4],
		"cat":    fmt.Sprintf("c%d", i%3),
		"labels": []string{fmt.Sprintf("l%d", i%2), "common"},
		"size":   int64(i),
		"price":  float64(i) * 1.5,
		"nested": map[string]any{"v": []float32{f, -f}, "n": int64(i * 10)},
		"extra":  map[string]any{"k": "str", "m": int64(1)},
		"arr":    []any{int64(1), int64(2), int64(3)},
	}
}

type c18Env struct {
	cnode   *cluster.ClusterNode
	handler http.Handler
	panics  *atomic.Int64
	known   map[string][]uuid.UUID // "user/collection" -> ids whose content the digest reads
	keep    map[string]bool        // fixture collections ("user/collection"), never cleaned up
}

func c18NewNode(dir string, port int) (*cluster.ClusterNode, error) {
	return startNode(cluster.ClusterNodeConfig{
		RootDir: dir, RpcHost: "localhost", RpcPort: port, RpcTimeout: 5, RpcRetries: 1,
		Servers:            []string{fmt.Sprintf("localhost:%d", port)},
		ShardManager:       cluster.ShardManagerConfig{RootDir: dir, ShardTimeout: 600, MaxCacheSize: -1},
		MaxShardSize:       1 << 30,
		MaxShardPointCount: 250000,
		MaxSearchLimit:     75,
	})
}

// c18Router mirrors httpapi.setupRouter (same middleware, same order; gen_doc_limits.py checks the
// order in the source) with a panic counter directly inside Recover.
func c18Router(cnode *cluster.ClusterNode, panics *atomic.Int64) http.Handler {
	mux := http.NewServeMux()
	mux.Handle("/v1/", http.StripPrefix("/v1", httpv1.SetupV1Handlers(cnode)))
	mux.Handle("/v2/", http.StripPrefix("/v2", httpv2.SetupV2Handlers(cnode)))
	var handler http.Handler = mux
	handler = middleware.AppHeaderMiddleware(c18Plans, handler)
	handler = middleware.WhiteListIP([]string{"*"}, handler)
	handler = middleware.ProxySecret("", handler)
	handler = middleware.ZeroLoggerMetrics(nil, handler)
	inner := handler
	counted := http.HandlerFunc(func(w http.ResponseWriter, r *http.Request) {
		defer func() {
			if e := recover(); e != nil {
				panics.Add(1)
				panic(e)
			}
		}()
		inner.ServeHTTP(w, r)
	})
	return middleware.Recover(counted)
}

func (e *c18Env) create(user, id string, schema models.IndexSchema, docs map[uuid.UUID]models.PointAsMap) error {
	col := models.Collection{UserId: user, Id: id, Replicas: 1, UserPlan: c18Plans[c18Users[user]], IndexSchema: schema}
	if err := e.cnode.CreateCollection(col); err != nil {
		return fmt.Errorf("fixture create %s/%s: %w", user, id, err)
	}
	key := user + "/" + id
	e.keep[key] = true
	if len(docs) == 0 {
		return nil
	}
	col, err := e.cnode.GetCollection(user, id)
	if err != nil {
		return err
	}
	col.UserPlan = c18Plans[c18Users[user]]
	ids := make([]uuid.UUID, 0, len(docs))
	for k := range docs {
		ids = append(ids, k)
	}
	sort.Slice(ids, func(i, j int) bool { return bytes.Compare(ids[i][:], ids[j][:]) < 0 })
	pts := make([]models.Point, len(ids))
	for i, k := range ids {
		b, err := msgpack.Marshal(docs[k])
		if err != nil {
			return err
		}
		pts[i] = models.Point{Id: k, Data: b}
	}
	fr, err := e.cnode.InsertPoints(col, pts)
	if err != nil || len(fr) > 0 {
		return fmt.Errorf("fixture insert %s: %v %v", key, err, fr)
	}
	e.known[key] = append(e.known[key], ids...)
	return nil
}

// scratch ids that valid and mutated write requests use
var c18Scratch = []uuid.UUID{c18Id(0xff00), c18Id(0xff01), c18Id(0xff02), c18Id(0xff03), c18Id(0xff09)}

func c18BuildFixture(e *c18Env) error {
	rich := map[uuid.UUID]models.PointAsMap{}
	for i := 0; i < 12; i++ {
		rich[c18Id(i+1)] = c18RichDoc(i)
	}
	for _, name := range []string{"rich", "richw"} {
		if err := e.create("alice", name, c18RichSchema(), rich); err != nil {
			return err
		}
	}
	nan := map[uuid.UUID]models.PointAsMap{}
	for i := 0; i < 3; i++ {
		nan[c18Id(i+1)] = c18RichDoc(i)
	}
	d := c18RichDoc(3)
	d["other"] = math.NaN()
	nan[c18Id(4)] = d
	if err := e.create("alice", "nanbox", c18RichSchema(), nan); err != nil {
		return err
	}
	if err := e.create("alice", "plain", models.IndexSchema{}, map[uuid.UUID]models.PointAsMap{
		c18Id(1): {"a": int64(1), "b": map[string]any{"c": "x"}}, c18Id(2): {"a": "two"}}); err != nil {
		return err
	}
	// dotted (nested) index properties of every kind
	dotted := map[uuid.UUID]models.PointAsMap{}
	for i := 0; i < 4; i++ {
		f := float32(i)
		dotted[c18Id(i+1)] = models.PointAsMap{
			"geo":  map[string]any{"vec": []float32{f, 1, 2}, "flat": []float32{1, f}, "name": fmt.Sprintf("n%d", i)},
			"meta": map[string]any{"tags": []string{"t", fmt.Sprintf("t%d", i)}, "count": int64(i), "score": float64(i) / 2, "text": "alpha beta"},
		}
	}
	if err := e.create("alice", "dotted", c18DottedSchema(), dotted); err != nil {
		return err
	}
	// target of the mixed-integer stream: one ranking index, one filter index, everything else unindexed
	if err := e.create("alice", "mixed", models.IndexSchema{
		"vec": {Type: "vectorVamana", VectorVamana: &models.IndexVectorVamanaParameters{VectorSize: 2, DistanceMetric: "euclidean", SearchSize: 75, DegreeBound: 64, Alpha: 1.2}},
		"cat": {Type: "string", String: &models.IndexStringParameters{CaseSensitive: true}}}, nil); err != nil {
		return err
	}
	for i := 0; i < 64; i++ {
		e.known["alice/mixed"] = append(e.known["alice/mixed"], c18Id(0x200+i))
	}
	wide := make([]float32, 4096)
	for i := range wide {
		wide[i] = float32(i%7) - 3
	}
	if err := e.create("bob", "wide", models.IndexSchema{"v": {Type: "vectorFlat", VectorFlat: &models.IndexVectorFlatParameters{VectorSize: 4096, DistanceMetric: "euclidean"}}},
		map[uuid.UUID]models.PointAsMap{c18Id(1): {"v": wide}}); err != nil {
		return err
	}
	v1schema := func(d uint) models.IndexSchema {
		return models.IndexSchema{"vector": {Type: "vectorVamana", VectorVamana: &models.IndexVectorVamanaParameters{VectorSize: d, DistanceMetric: "euclidean", SearchSize: 75, DegreeBound: 64, Alpha: 1.2}}}
	}
	vdocs := map[uuid.UUID]models.PointAsMap{}
	for i := 0; i < 5; i++ {
		vdocs[c18Id(i+1)] = models.PointAsMap{"vector": []float32{float32(i), 1, 2}, "metadata": map[string]any{"n": int64(i), "s": "meta"}}
	}
	if err := e.create("vone", "vcol", v1schema(3), vdocs); err != nil {
		return err
	}
	if err := e.create("vone", "vnan", v1schema(3), map[uuid.UUID]models.PointAsMap{
		c18Id(1): {"vector": []float32{1, 1, 2}, "metadata": math.NaN()}}); err != nil {
		return err
	}
	for k := range e.keep {
		e.known[k] = append(e.known[k], c18Scratch...)
	}
	return nil
}

// ---------------------------------------------------------------- digest

func c18SortedMsgpack(v any) []byte {
	var buf bytes.Buffer
	enc := msgpack.NewEncoder(&buf)
	enc.SetSortMapKeys(true)
	if err := enc.Encode(v); err != nil {
		return []byte("ERR:" + err.Error())
	}
	return buf.Bytes()
}

// c18Docs reads the known points of a collection through the cluster API (select *).
func (e *c18Env) docs(col models.Collection) (map[string]models.PointAsMap, error) {
	out := map[string]models.PointAsMap{}
	ids := e.known[col.UserId+"/"+col.Id]
	if len(ids) == 0 || len(col.ShardIds) == 0 {
		return out, nil
	}
	for i := 0; i < len(ids); i += 50 {
		j := min(i+50, len(ids))
		strs := make([]string, 0, j-i)
		for _, id := range ids[i:j] {
			strs = append(strs, id.String())
		}
		res, err := e.cnode.SearchPoints(col, models.SearchRequest{
			Query:  models.Query{Property: "_id", StringArray: &models.SearchStringArrayOptions{Value: strs, Operator: models.OperatorContainsAny}},
			Select: []string{"*"}, Limit: 75})
		if err != nil {
			return nil, err
		}
		for _, sr := range res {
			m := sr.DecodedData
			if m == nil {
				m = models.PointAsMap{}
				if len(sr.Point.Data) > 0 {
					if err := msgpack.Unmarshal(sr.Point.Data, &m); err != nil {
						m = models.PointAsMap{"__undecodable": sr.Point.Data}
					}
				}
			}
			out[sr.Point.Id.String()] = m
		}
	}
	return out, nil
}

// oversized: some stored point of some collection is larger than the point size limit of the plan the collection was
// created under (every shard asked directly for the raw stored data of the known ids)
func (e *c18Env) oversized() bool {
	for u := range c18Users {
		cols, err := e.cnode.ListCollections(u)
		if err != nil {
			continue
		}
		for _, col := range cols {
			// fixture points, plus the ids the generated requests give to points of collections they create themselves
			ids := append([]uuid.UUID{}, e.known[col.UserId+"/"+col.Id]...)
			for k := 0; k < 8; k++ {
				ids = append(ids, c18Id(0x100+k))
			}
			if col.UserPlan.MaxPointSize <= 0 {
				continue
			}
			for _, sid := range col.ShardIds {
				over := false
				e.cnode.VerifShardManager().DoWithShard(col, sid, func(s *shard.Shard) error {
					res, err := s.SearchPoints(models.SearchRequest{Query: c17IdAny(ids), Select: []string{"*"}})
					if err != nil {
						return err
					}
					for _, r := range res {
						if len(r.Data) > col.UserPlan.MaxPointSize {
							over = true
						}
					}
					return nil
				})
				if over {
					return true
				}
			}
		}
	}
	return false
}

func (e *c18Env) digest() string {
	h := sha256.New()
	users := make([]string, 0, len(c18Users))
	for u := range c18Users {
		users = append(users, u)
	}
	sort.Strings(users)
	for _, u := range users {
		cols, err := e.cnode.ListCollections(u)
		if err != nil {
			fmt.Fprintf(h, "user %s: list error %v\n", u, err)
			continue
		}
		sort.Slice(cols, func(i, j int) bool { return cols[i].Id < cols[j].Id })
		for _, col := range cols {
			fmt.Fprintf(h, "col %s/%s schema=%s shards=%d\n", u, col.Id, absSchema(col.IndexSchema), len(col.ShardIds))
			infos, err := e.cnode.VerifGetShardsInfo(col)
			total := int64(0)
			for _, s := range infos {
				total += s.PointCount
			}
			fmt.Fprintf(h, " points=%d err=%v\n", total, err != nil)
			docs, err := e.docs(col)
			if err != nil {
				fmt.Fprintf(h, " docs error\n")
				continue
			}
			ids := make([]string, 0, len(docs))
			for id := range docs {
				ids = append(ids, id)
			}
			sort.Strings(ids)
			for _, id := range ids {
				fmt.Fprintf(h, "  %s %x\n", id, c18SortedMsgpack(map[string]any(docs[id])))
			}
		}
	}
	return hex.EncodeToString(h.Sum(nil)[:12])
}

// cleanup removes collections that a create exchange left behind
func (e *c18Env) cleanup() {
	for u := range c18Users {
		cols, err := e.cnode.ListCollections(u)
		if err != nil {
			continue
		}
		for _, col := range cols {
			if !e.keep[u+"/"+col.Id] {
				e.cnode.DeleteCollection(col)
			}
		}
	}
}

func c18Sanitize(s string) string {
	var sb strings.Builder
	for _, c := range []byte(s) {
		if c >= 32 && c < 127 && c != '"' && c != '\\' {
			sb.WriteByte(c)
		} else {
			fmt.Fprintf(&sb, "?%02x", c)
		}
	}
	return sb.String()
}

// cq prints a Coq string literal
func cq(s string) string { return `"` + c18Sanitize(s) + `"` }
