package main

// C20, binary vector stores: an index whose metric is hamming or jaccard always ranks by the bit-count definition of
// THAT metric on the vectors thresholded at 0.5, whatever quantiser block its schema carries (none, a binary block
// with a threshold and a metric of its own, a binary block that would learn its threshold). The stores are built by
// vectorstore.New over a memory bucket, two points are written and the distances the store hands to the index
// (DistanceFromPoint, DistanceFromFloat) are recorded as CStoreBits terms.

import (
	"fmt"
	"math"

	"github.com/semafind/semadb/diskstore"
	"github.com/semafind/semadb/models"
	"github.com/semafind/semadb/shard/vectorstore"
)

func c20StoreBitsStream(rc *runCtx, fs *c20Files, note func(kind, key string), hist map[string]int) error {
	r := newRng(rc.seed, 2020)
	nper := 6
	if rc.thorough() {
		nper = 60
	}
	thr := func(x float32) *float32 { return &x }
	other := map[string]string{"hamming": "jaccard", "jaccard": "hamming"}
	for mi, metric := range []string{"hamming", "jaccard"} {
		blocks := []struct {
			name string
			q    *models.Quantizer
		}{
			{"no block", nil},
			{"none", &models.Quantizer{Type: models.QuantizerNone}},
			{"binary 0.5 same metric", &models.Quantizer{Type: models.QuantizerBinary, Binary: &models.BinaryQuantizerParamaters{Threshold: thr(0.5), DistanceMetric: metric}}},
			{"binary 0.5 other metric", &models.Quantizer{Type: models.QuantizerBinary, Binary: &models.BinaryQuantizerParamaters{Threshold: thr(0.5), DistanceMetric: other[metric]}}},
			{"binary 1.5 other metric", &models.Quantizer{Type: models.QuantizerBinary, Binary: &models.BinaryQuantizerParamaters{Threshold: thr(1.5), DistanceMetric: other[metric]}}},
			{"binary -0.5 same metric", &models.Quantizer{Type: models.QuantizerBinary, Binary: &models.BinaryQuantizerParamaters{Threshold: thr(-0.5), DistanceMetric: metric}}},
			{"binary learned other metric", &models.Quantizer{Type: models.QuantizerBinary, Binary: &models.BinaryQuantizerParamaters{TriggerThreshold: 2, DistanceMetric: other[metric]}}},
		}
		for _, blk := range blocks {
			for k := 0; k < nper; k++ {
				n := []int{1, 2, 3, 7, 63, 64, 65, 100, 128, 129, 700}[r.IntN(11)]
				if k == 0 {
					n = 65
				}
				// half-grid values around both thresholds in play: 0, 0.5, 1, 1.5, 2 and negatives
				gen := func() ([]float32, []int64) {
					v, z := make([]float32, n), make([]int64, n)
					for i := range v {
						z[i] = int64(r.IntN(7) - 2) // -1 .. 2 in halves: -2..4
						v[i] = float32(z[i]) / 2
					}
					return v, z
				}
				v1, z1 := gen()
				v2, z2 := gen()
				if k%5 == 4 {
					v2, z2 = append([]float32(nil), v1...), append([]int64(nil), z1...)
				}
				bucket := diskstore.NewMemBucket(false)
				vs, err := vectorstore.New(blk.q, bucket, metric, n)
				if err != nil {
					return fmt.Errorf("binary store %s / %s: %w", metric, blk.name, err)
				}
				p1, err := vs.Set(1, append([]float32(nil), v1...))
				if err != nil {
					return err
				}
				p2, err := vs.Set(2, append([]float32(nil), v2...))
				if err != nil {
					return err
				}
				if err := vs.Fit(); err != nil {
					return err
				}
				if q1, err := vs.Get(1); err == nil {
					p1 = q1
				}
				if q2, err := vs.Get(2); err == nil {
					p2 = q2
				}
				dp := math.Float32bits(vs.DistanceFromPoint(p1)(p2))
				// the distance function of a query is used while those of other queries on the same store are alive (a
				// composite request runs its vector sub-queries on one cached store): ask for a second one in between
				dfn := vs.DistanceFromFloat(append([]float32(nil), v1...))
				otherQ := make([]float32, n)
				for i := range otherQ {
					otherQ[i] = float32(r.IntN(7)-2) / 2
				}
				_ = vs.DistanceFromFloat(otherQ)(p1)
				df := math.Float32bits(dfn(p2))
				fs.add(fmt.Sprintf("CStoreBits %d %s %s %d %d", mi, c20ZList(z1), c20ZList(z2), dp, df))
				note("storebits/"+metric+"/"+blk.name, fmt.Sprint(n, z1, z2))
				hist["binary store "+metric+", block: "+blk.name]++
				if k == 0 && blk.name == "binary 1.5 other metric" {
					rc.addSample(map[string]any{"kind": "binary store", "indexMetric": metric, "block": blk.name, "n": n,
						"fromPoint": math.Float32frombits(dp), "fromFloat": math.Float32frombits(df)})
				}
			}
		}
	}
	return nil
}
