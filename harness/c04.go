package main

func init() { subcmds["c04"] = runC04 }

func runC04(rc *runCtx) error {
	n := rc.n
	if n == 0 {
		n = 144
		if rc.thorough() {
			n = 2400
		}
	}
	nfiles := 8
	if rc.thorough() {
		nfiles = 32
	}
	// warm shared cache, tiny cache (eviction after every access), cache disabled, reopen (cold), memory backend
	return runHistories(rc, "c04", n, []int{0, 1, 2, 3, 4, 3}, nfiles,
		[]string{"Bytes", "Pack", "Value", "Obs", "Run_C04"}, "hist", "C04")
}
