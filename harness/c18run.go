package main

// C18 -- the child process: executes a batch of exchanges against a fresh in-process node and
// writes, per exchange, a line "B <idx> <case prefix>" before the request is sent and a line
// "R <idx> <status> <panic> <changed>" after it; a B without R means the process died there.

import (
	"bufio"
	"bytes"
	"encoding/json"
	"fmt"
	"net/http"
	"net/http/httptest"
	"os"
	"path/filepath"
	"strings"
	"sync/atomic"

	"github.com/google/uuid"
	httpv1 "github.com/semafind/semadb/httpapi/v1"
	httpv2 "github.com/semafind/semadb/httpapi/v2"
	"github.com/semafind/semadb/models"
)

type xspec struct {
	Tag    string `json:"tag"`
	Class  string `json:"class"` // valid | mutated | raw
	Method string `json:"method"`
	Path   string `json:"path"`
	User   string `json:"user"`
	Plan   string `json:"plan"`
	CT     string `json:"ct"`
	Body   []byte `json:"body"`
	Depth  int    `json:"depth"` // declared nesting depth of designated deep bodies
	// for designated sequences: requests executed right before this one, not recorded
	Setup []xspec `json:"setup,omitempty"`
}

type c18Job struct {
	Port  int     `json:"port"`
	Skip  int     `json:"skip"`
	Specs []xspec `json:"specs"`
}

type route struct {
	ver int
	ep  string
	col string
}

// c18Route mirrors the patterns registered by SetupV1Handlers / SetupV2Handlers
func c18Route(method, path string) route {
	var ver int
	switch {
	case strings.HasPrefix(path, "/v1/"):
		ver = 1
	case strings.HasPrefix(path, "/v2/"):
		ver = 2
	default:
		return route{0, "EpNoRoute", ""}
	}
	if method == "HEAD" { // ServeMux: a GET pattern also matches HEAD
		method = "GET"
	}
	rest := path[3:]
	if rest == "/ping" {
		return route{ver, "EpPing", ""}
	}
	seg := strings.Split(strings.TrimPrefix(rest, "/"), "/")
	no := route{ver, "EpNoRoute", ""}
	if seg[0] != "collections" {
		return no
	}
	for _, s := range seg {
		if s == "" || s == "." || s == ".." {
			return no
		}
	}
	switch len(seg) {
	case 1:
		switch method {
		case "GET":
			return route{ver, "EpList", ""}
		case "POST":
			return route{ver, "EpCreate", ""}
		}
	case 2:
		switch method {
		case "GET":
			return route{ver, "EpGet", seg[1]}
		case "DELETE":
			return route{ver, "EpDelCol", seg[1]}
		}
	case 3:
		if seg[2] == "points" {
			switch method {
			case "POST":
				return route{ver, "EpInsert", seg[1]}
			case "PUT":
				return route{ver, "EpUpdate", seg[1]}
			case "DELETE":
				return route{ver, "EpDelPts", seg[1]}
			}
		}
	case 4:
		if seg[2] == "points" && seg[3] == "search" && method == "POST" {
			return route{ver, "EpSearch", seg[1]}
		}
	}
	return no
}

type c18Out struct {
	w *bufio.Writer
	f *os.File
}

func (o *c18Out) line(format string, a ...any) {
	fmt.Fprintf(o.w, format+"\n", a...)
	o.w.Flush()
}

func (e *c18Env) do(x xspec) (int, bool) {
	req := httptest.NewRequest(x.Method, x.Path, bytes.NewReader(x.Body))
	if x.User != "" {
		req.Header.Set("X-User-Id", x.User)
	}
	if x.Plan != "" {
		req.Header.Set("X-Plan-Id", x.Plan)
	}
	if x.CT != "" {
		req.Header.Set("Content-Type", x.CT)
	}
	rec := httptest.NewRecorder()
	before := e.panics.Load()
	e.handler.ServeHTTP(rec, req)
	return rec.Code, e.panics.Load() != before
}

func runC18Child(rc *runCtx) error {
	data, err := os.ReadFile(rc.replay)
	if err != nil {
		return err
	}
	var job c18Job
	if err := json.Unmarshal(data, &job); err != nil {
		return err
	}
	dir, err := os.MkdirTemp("", "verif-c18-")
	if err != nil {
		return err
	}
	defer os.RemoveAll(dir)
	cnode, err := c18NewNode(dir, job.Port)
	if err != nil {
		return err
	}
	defer cnode.Close()
	env := &c18Env{cnode: cnode, panics: &atomic.Int64{}, known: map[string][]uuid.UUID{}, keep: map[string]bool{}}
	env.handler = c18Router(cnode, env.panics)
	if err := c18BuildFixture(env); err != nil {
		return err
	}
	f, err := os.Create(filepath.Join(rc.outDir, "child.out"))
	if err != nil {
		return err
	}
	out := &c18Out{w: bufio.NewWriter(f), f: f}
	auxSeen := map[string]bool{}
	aux := func(term string) string {
		h := fmt.Sprintf("%016x", fnv64(term))
		if !auxSeen[h] {
			auxSeen[h] = true
			out.line("A\t%s\t%s", h, term)
		}
		return "@" + h + "@"
	}
	prev := env.digest()
	for idx, x := range job.Specs {
		if idx < job.Skip {
			continue
		}
		for _, s := range x.Setup {
			env.do(s)
			if c18Route(s.Method, s.Path).ep == "EpCreate" {
				// designated sequences keep what they create until the recorded request is done
			}
			prev = env.digest()
		}
		prefix := env.describe(x, aux)
		out.line("B\t%d\t%s", idx, prefix)
		status, panicked := env.do(x)
		dg := env.digest()
		changed := dg != prev
		prev = dg
		out.line("R\t%d\t%d\t%s\t%s\t%s", idx, status, cBool(panicked), cBool(changed), cBool(env.oversized()))
		rt := c18Route(x.Method, x.Path)
		if rt.ep == "EpCreate" || len(x.Setup) > 0 {
			env.cleanup()
			prev = env.digest()
		}
	}
	out.line("E")
	return f.Close()
}

func fnv64(s string) uint64 {
	h := uint64(14695981039346656037)
	for i := 0; i < len(s); i++ {
		h ^= uint64(s[i])
		h *= 1099511628211
	}
	return h
}

// describe prints the case up to (and without) the observation
func (e *c18Env) describe(x xspec, aux func(string) string) string {
	rt := c18Route(x.Method, x.Path)
	// ---- headers, as AppHeaderMiddleware sees them
	hdr := "HOk"
	plan, planOk := c18Plans[x.Plan]
	switch {
	case x.User == "" || x.Plan == "":
		hdr = "HMissing"
	case x.User == "." || x.User == ".." || strings.ContainsAny(x.User, "/\\"):
		hdr = "HBadUser"
	case !planOk:
		hdr = "HUnknownPlan"
	}
	ver := rt.ver
	if ver == 0 {
		ver = 2
	}
	ct := "CtOther"
	switch x.CT {
	case "application/json":
		ct = "CtJson"
	case "application/msgpack":
		ct = "CtMsgpack"
	}
	// ---- state
	var col models.Collection
	found := false
	if hdr == "HOk" && rt.col != "" {
		if c, err := e.cnode.GetCollection(x.User, rt.col); err == nil {
			col, found = c, true
		}
	}
	uri := "UriNone"
	if rt.col != "" {
		uri = fmt.Sprintf("(Uri %d %s)", len(rt.col), cBool(found))
	}
	schema := models.IndexSchema{}
	if found {
		schema = col.IndexSchema
	}
	var all []string
	count := 0
	if hdr == "HOk" {
		if cols, err := e.cnode.ListCollections(x.User); err == nil {
			count = len(cols)
			for _, c := range cols {
				all = append(all, aux(absSchema(c.IndexSchema)))
			}
		}
	}
	total := int64(0)
	if found {
		if infos, err := e.cnode.VerifGetShardsInfo(col); err == nil {
			for _, s := range infos {
				total += s.PointCount
			}
		}
	}
	// ---- body
	body := "BNone"
	finite, selScalar, selNonfinite := true, false, false
	exists := false
	hasBody := rt.ep == "EpCreate" || rt.ep == "EpInsert" || rt.ep == "EpUpdate" || rt.ep == "EpDelPts" || rt.ep == "EpSearch"
	if hasBody {
		body = "BUndecodable"
	}
	if hasBody && ct != "CtOther" && x.Depth < 100000 {
		switch {
		case rt.ep == "EpCreate" && rt.ver == 2:
			if r, ok := c18Decode[httpv2.CreateCollectionRequest](x.CT, x.Body); ok {
				body = absCreate2(r, aux(absSchema(r.IndexSchema)))
				if hdr == "HOk" {
					_, err := e.cnode.GetCollection(x.User, r.Id)
					exists = err == nil
				}
			}
		case rt.ep == "EpCreate" && rt.ver == 1:
			if r, ok := c18Decode[httpv1.CreateCollectionRequest](x.CT, x.Body); ok {
				body = absCreate1(r)
				if hdr == "HOk" {
					_, err := e.cnode.GetCollection(x.User, r.Id)
					exists = err == nil
				}
			}
		case (rt.ep == "EpInsert" || rt.ep == "EpUpdate") && rt.ver == 2:
			var pts []models.PointAsMap
			ok := false
			if rt.ep == "EpInsert" {
				var r httpv2.InsertPointsRequest
				r, ok = c18Decode[httpv2.InsertPointsRequest](x.CT, x.Body)
				pts = r.Points
			} else {
				var r httpv2.UpdatePointsRequest
				r, ok = c18Decode[httpv2.UpdatePointsRequest](x.CT, x.Body)
				pts = r.Points
			}
			if ok {
				body = absPoints2(pts, schema, plan.MaxPointSize)
				for _, p := range pts {
					finite = finite && finiteAny(p)
				}
			}
		case rt.ep == "EpInsert" && rt.ver == 1:
			if r, ok := c18Decode[httpv1.InsertPointsRequest](x.CT, x.Body); ok {
				ids, vecs, metas := make([]string, len(r.Points)), make([][]float32, len(r.Points)), make([]any, len(r.Points))
				for i, p := range r.Points {
					ids[i], vecs[i], metas[i] = p.Id, p.Vector, p.Metadata
					finite = finite && finiteVec(p.Vector) && finiteAny(p.Metadata)
				}
				body = absPoints1(ids, vecs, metas, false, plan.MaxPointSize)
			}
		case rt.ep == "EpUpdate" && rt.ver == 1:
			if r, ok := c18Decode[httpv1.UpdatePointsRequest](x.CT, x.Body); ok {
				ids, vecs, metas := make([]string, len(r.Points)), make([][]float32, len(r.Points)), make([]any, len(r.Points))
				for i, p := range r.Points {
					ids[i], vecs[i], metas[i] = p.Id, p.Vector, p.Metadata
					finite = finite && finiteVec(p.Vector) && finiteAny(p.Metadata)
				}
				body = absPoints1(ids, vecs, metas, true, plan.MaxPointSize)
			}
		case rt.ep == "EpDelPts" && rt.ver == 2:
			if r, ok := c18Decode[httpv2.DeletePointsRequest](x.CT, x.Body); ok {
				body = absIds(r.Ids)
			}
		case rt.ep == "EpDelPts" && rt.ver == 1:
			if r, ok := c18Decode[httpv1.DeletePointsRequest](x.CT, x.Body); ok {
				body = absIds(r.Ids)
			}
		case rt.ep == "EpSearch" && rt.ver == 2:
			if r, ok := c18Decode[models.SearchRequest](x.CT, x.Body); ok {
				body = absSearch2(r)
				finite = finiteQuery(r.Query)
				if found && len(r.Select) > 0 {
					if docs, err := e.docs(col); err == nil {
						for _, d := range docs {
							f, n := c18SelectSim(d, r.Select)
							selScalar = selScalar || f
							selNonfinite = selNonfinite || n
						}
					}
				}
			}
		case rt.ep == "EpSearch" && rt.ver == 1:
			if r, ok := c18Decode[httpv1.SearchPointsRequest](x.CT, x.Body); ok {
				body = absSearch1(r)
				finite = finiteVec(r.Vector)
				if found {
					if docs, err := e.docs(col); err == nil {
						for _, d := range docs {
							_, n := c18SelectSim(d, []string{"metadata"})
							selNonfinite = selNonfinite || n
						}
					}
				}
			}
		}
	}
	class := map[string]string{"valid": "CValid", "mutated": "CMutated", "raw": "CRaw"}[x.Class]
	ctx := fmt.Sprintf("(mkCtx %s [%s] %s %d %d %d %d)", aux(absSchema(schema)), strings.Join(all, "; "), cBool(exists), count, plan.MaxCollections, total, plan.MaxCollectionPointCount)
	fl := fmt.Sprintf("(mkFl %s %s %s %d)", cBool(finite), cBool(selScalar), cBool(selNonfinite), x.Depth)
	return fmt.Sprintf("mkCase %s %d %s %s %s %s %s %s %s %s", cq(x.Tag), ver, rt.ep, class, hdr, uri, ct, body, ctx, fl)
}

var _ = http.StatusOK
