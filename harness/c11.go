package main

// C11 -- shared-cache transactions (shard/cache/manager.go).
//
// The cache package is driven directly.  Every transaction of a configuration
// runs in its own goroutine; callbacks block on channels, so this file decides
// the order ("forced schedule"): a schedule is a list of releases.  Releasing
// transaction t lets it run from the point where it is held (before its next
// operation / inside its callback) to the next such point.  Whether a
// transaction blocked inside With is read off the goroutine dump (wait reason
// sync.Mutex.Lock / sync.RWMutex.Lock / ...), so no timing guess is involved.
// After every release the status of every transaction and the manager map
// (name -> element, read through reflection) are recorded; Run_C11.v judges
// the observations and compares them with the model on the same schedule.
//
// Elements are numbered in the order createFn produced them.

import (
	"bytes"
	"fmt"
	"math/rand/v2"
	"path/filepath"
	"reflect"
	"runtime"
	"sort"
	"strconv"
	"strings"
	"sync"
	"sync/atomic"
	"time"
	"unsafe"

	"github.com/semafind/semadb/shard/cache"
)

func init() { subcmds["c11"] = runC11 }

// ---------------------------------------------------------------- programs
const (
	c11OK = iota
	c11CbFail
	c11ConsFail
)

type c11Op struct {
	commit bool
	fail   bool // Commit(fail)
	name   int
	ro     bool
	oc     int
}

type c11Label struct {
	del bool
	t   int // transaction, or name for del
}

type c11Cfg struct {
	limit int64
	progs [][]c11Op // without the probe
	envs  []int     // names released by the environment (each once, at any moment)
	probe bool
	kind  string
}

func (o c11Op) coq() string {
	if o.commit {
		return "C " + cBool(o.fail)
	}
	oc := [...]string{"OK", "CbFail", "ConsFail"}[o.oc]
	return fmt.Sprintf("W %d %s %s", o.name, cBool(o.ro), oc)
}

func c11ProgsCoq(progs [][]c11Op) string {
	var ps []string
	for _, p := range progs {
		var os []string
		for _, o := range p {
			os = append(os, o.coq())
		}
		ps = append(ps, cList(os))
	}
	return cList(ps)
}

var c11Names = []string{"A", "B", "C"}

// ---------------------------------------------------------------- instrumented cachable
type c11Item struct {
	id   int
	name int
}

func (c *c11Item) SizeInMemory() int64 { return 1 }

// ---------------------------------------------------------------- one execution
const (
	c11Idle = iota
	c11In
	c11Blk
)

type c11Stat struct {
	kind int
	pc   int
	elem int
	rets []bool
}

type c11Obs struct {
	stats []c11Stat
	mp    [][2]int // (name, element) sorted by name
}

type c11Event struct {
	kind int // c11Idle / c11In
	elem int
	err  bool
	isOp bool // a With returned (err is meaningful)
}

type c11Run struct {
	cfg        c11Cfg
	progs      [][]c11Op // including the probe as the last one
	m          *cache.Manager
	txs        []*cache.Transaction
	release    []chan struct{}
	ev         []chan c11Event
	gid        []uint64
	gidWG      sync.WaitGroup
	exitWG     sync.WaitGroup
	abort      bool // set before the channels are closed
	skipCommit []bool
	exited     []atomic.Bool
	lateWake   atomic.Bool // set once locks are opened by force: nobody calls Commit any more
	stat       []c11Stat
	// element registry; createFn runs in the transaction goroutines, one at a time in
	// practice (forced schedule), the mutex is for the race detector's sake
	regMu sync.Mutex
	items map[uintptr]int
	nitem int
	// every sharedCacheElem ever seen in the manager map (address, offset of its mutex)
	elemPtrs map[unsafe.Pointer]bool
	muOff    uintptr
	// bookkeeping for the F6-precondition tag
	tag bool
}

func c11GoID() uint64 {
	var buf [64]byte
	n := runtime.Stack(buf[:], false)
	// "goroutine 123 [running]:"
	f := bytes.Fields(buf[:n])
	id, _ := strconv.ParseUint(string(f[1]), 10, 64)
	return id
}

var c11DumpBuf = make([]byte, 1<<16)

// wait reason of goroutine gid, "" if not found
func c11GoState(gid uint64) string {
	for {
		n := runtime.Stack(c11DumpBuf, true)
		if n < len(c11DumpBuf) {
			d := c11DumpBuf[:n]
			key := []byte("goroutine " + strconv.FormatUint(gid, 10) + " [")
			i := bytes.Index(d, key)
			for i > 0 && d[i-1] != '\n' {
				j := bytes.Index(d[i+1:], key)
				if j < 0 {
					return ""
				}
				i = i + 1 + j
			}
			if i < 0 {
				return ""
			}
			rest := d[i+len(key):]
			e := bytes.IndexByte(rest, ']')
			if e < 0 {
				return ""
			}
			s := string(rest[:e])
			if c := strings.IndexByte(s, ','); c >= 0 {
				s = s[:c]
			}
			return s
		}
		c11DumpBuf = make([]byte, 2*len(c11DumpBuf))
	}
}

func c11IsLockWait(s string) bool {
	switch s {
	case "sync.Mutex.Lock", "sync.RWMutex.Lock", "sync.RWMutex.RLock", "semacquire":
		return true
	}
	return false
}

func (r *c11Run) createFn(t int, name int, fail bool) func() (cache.Cachable, error) {
	return func() (cache.Cachable, error) {
		if fail && !r.abort {
			return nil, fmt.Errorf("construction fails")
		}
		r.regMu.Lock()
		it := &c11Item{id: r.nitem, name: name}
		r.nitem++
		r.items[uintptr(unsafe.Pointer(it))] = it.id
		r.regMu.Unlock()
		return it, nil
	}
}

func (r *c11Run) txMain(t int) {
	defer r.exitWG.Done()
	defer r.exited[t].Store(true)
	committed := false
	r.gid[t] = c11GoID()
	r.gidWG.Done()
	tx := r.txs[t]
	for _, op := range r.progs[t] {
		<-r.release[t]
		if r.abort {
			break
		}
		if op.commit {
			tx.Commit(op.fail)
			committed = true
			r.ev[t] <- c11Event{kind: c11Idle}
			continue
		}
		err := tx.With(c11Names[op.name], op.ro, r.createFn(t, op.name, op.oc == c11ConsFail), func(c cache.Cachable) error {
			if r.abort {
				return nil
			}
			r.ev[t] <- c11Event{kind: c11In, elem: c.(*c11Item).id}
			<-r.release[t]
			if op.oc == c11CbFail && !r.abort {
				return fmt.Errorf("callback fails")
			}
			return nil
		})
		if r.abort {
			break
		}
		r.ev[t] <- c11Event{kind: c11Idle, err: err != nil, isOp: true}
	}
	if r.abort && !r.skipCommit[t] && !committed && !r.lateWake.Load() {
		// let go of the write locks so that transactions blocked behind us can leave
		tx.Commit(true)
	}
}

func (r *c11Run) apply(t int, e c11Event) {
	s := &r.stat[t]
	switch e.kind {
	case c11In:
		s.kind = c11In
		s.elem = e.elem
	case c11Idle:
		s.kind = c11Idle
		s.pc++
		if e.isOp {
			s.rets = append(append([]bool{}, s.rets...), e.err)
		}
	}
}

// wait until transaction t reaches its next point or blocks on a lock
func (r *c11Run) wait(t int) error {
	deadline := time.Now().Add(5 * time.Second)
	for i := 0; ; i++ {
		select {
		case e := <-r.ev[t]:
			r.apply(t, e)
			return nil
		default:
		}
		if i < 200 {
			runtime.Gosched()
			continue
		}
		st := c11GoState(r.gid[t])
		if c11IsLockWait(st) {
			// the event may have been sent just before an unrelated lock wait: cannot
			// happen (the next lock is only taken after the next release), but look once more
			select {
			case e := <-r.ev[t]:
				r.apply(t, e)
				return nil
			default:
			}
			r.stat[t].kind = c11Blk
			return nil
		}
		if time.Now().After(deadline) {
			return fmt.Errorf("transaction %d neither reached a point nor blocked (state %q)", t, st)
		}
		time.Sleep(20 * time.Microsecond)
	}
}

// the manager map through reflection: (name, element id) sorted by name
func (r *c11Run) readMap() [][2]int {
	mv := reflect.ValueOf(r.m).Elem().FieldByName("sharedCaches")
	var out [][2]int
	it := mv.MapRange()
	for it.Next() {
		k := it.Key().String()
		ni := -1
		for i, n := range c11Names {
			if n == k {
				ni = i
			}
		}
		if f, ok := it.Value().Type().Elem().FieldByName("mu"); ok {
			r.muOff = f.Offset
			r.elemPtrs[it.Value().UnsafePointer()] = true
		}
		item := it.Value().Elem().FieldByName("item")
		p := item.Elem().Pointer()
		r.regMu.Lock()
		id, ok := r.items[p]
		r.regMu.Unlock()
		if !ok {
			id = 9999
		}
		out = append(out, [2]int{ni, id})
	}
	sort.Slice(out, func(i, j int) bool { return out[i][0] < out[j][0] })
	return out
}

func (r *c11Run) observe() c11Obs {
	o := c11Obs{stats: make([]c11Stat, len(r.stat)), mp: r.readMap()}
	copy(o.stats, r.stat)
	return o
}

type c11Result struct {
	sched       []c11Label
	taken       []c11Label // like sched, including a last step that was cut
	obs         []c11Obs
	choices     [][]c11Label // alternatives at each non-probe step
	tag         bool
	deadlock    bool
	ambiguous   bool
	blockedSeen bool
}

func c11ProbeProg(names []int) []c11Op {
	var p []c11Op
	for _, n := range names {
		p = append(p, c11Op{name: n, ro: false}, c11Op{name: n, ro: true})
	}
	return append(p, c11Op{commit: true})
}

func c11NamesOf(cfg c11Cfg) []int {
	seen := map[int]bool{}
	for _, p := range cfg.progs {
		for _, o := range p {
			if !o.commit {
				seen[o.name] = true
			}
		}
	}
	for _, n := range cfg.envs {
		seen[n] = true
	}
	var out []int
	for n := range seen {
		out = append(out, n)
	}
	sort.Ints(out)
	return out
}

// choose: given the alternatives, returns the index to take (prefix replay, then policy)
func c11Exec(cfg c11Cfg, choose func(step int, alts []c11Label) int) (*c11Result, error) {
	progs := append([][]c11Op{}, cfg.progs...)
	if cfg.probe {
		progs = append(progs, c11ProbeProg(c11NamesOf(cfg)))
	}
	n := len(progs)
	r := &c11Run{cfg: cfg, progs: progs, m: cache.NewManager(cfg.limit), items: map[uintptr]int{}, elemPtrs: map[unsafe.Pointer]bool{}}
	r.release = make([]chan struct{}, n)
	r.ev = make([]chan c11Event, n)
	r.gid = make([]uint64, n)
	r.stat = make([]c11Stat, n)
	r.skipCommit = make([]bool, n)
	r.exited = make([]atomic.Bool, n)
	r.txs = make([]*cache.Transaction, n)
	r.gidWG.Add(n)
	r.exitWG.Add(n)
	for t := 0; t < n; t++ {
		r.release[t] = make(chan struct{}, 1)
		r.ev[t] = make(chan c11Event, 4)
		r.txs[t] = r.m.NewTransaction()
		go r.txMain(t)
	}
	r.gidWG.Wait()
	res := &c11Result{}
	var runErr error
	envLeft := append([]int{}, cfg.envs...)
	nreal := len(cfg.progs)
	// bookkeeping for the tag: name -> (writer, element) of uncommitted writers on registered elements
	type hold struct{ w, e int }
	holds := map[int]hold{}
	inMap := func(mp [][2]int, name int) int {
		for _, p := range mp {
			if p[0] == name {
				return p[1]
			}
		}
		return -1
	}
	finished := func(t int) bool { return r.stat[t].kind == c11Idle && r.stat[t].pc == len(progs[t]) }
	doStep := func(l c11Label) error {
		prev := append([]c11Stat{}, r.stat...)
		if l.del {
			r.m.Release(c11Names[l.t])
		} else {
			r.release[l.t] <- struct{}{}
			if err := r.wait(l.t); err != nil {
				return err
			}
		}
		// transactions that were blocked may have moved on
		for t := 0; t < n; t++ {
			if (l.del || t != l.t) && r.stat[t].kind == c11Blk {
				if err := r.wait(t); err != nil {
					return err
				}
			}
		}
		o := r.observe()
		res.sched = append(res.sched, l)
		res.obs = append(res.obs, o)
		// ---- tag (precondition of finding F6 observed)
		for t := 0; t < n; t++ {
			s := r.stat[t]
			if s.kind == c11Blk {
				res.blockedSeen = true
			}
			// a writing callback starts
			if s.kind == c11In && !(prev[t].kind == c11In && prev[t].pc == s.pc) {
				op := progs[t][s.pc]
				if !op.ro {
					if cfg.limit != 0 && inMap(o.mp, op.name) != s.elem {
						res.tag = true
					} else if cfg.limit != 0 {
						holds[op.name] = hold{t, s.elem}
					}
				}
			}
			// With returned an error: the transaction is failed, its own error path removes entries
			if s.kind == c11Idle && len(s.rets) > 0 && s.rets[len(s.rets)-1] {
				for nm, h := range holds {
					if h.w == t {
						delete(holds, nm)
					}
				}
			}
			// committed
			if s.kind == c11Idle && s.pc > c11CommitIdx(progs[t]) {
				for nm, h := range holds {
					if h.w == t {
						delete(holds, nm)
					}
				}
			}
		}
		for nm, h := range holds {
			if inMap(o.mp, nm) != h.e {
				res.tag = true
			}
		}
		return nil
	}
	step := 0
	for runErr == nil {
		var alts []c11Label
		nblocked := 0
		blockedNames := map[int]int{}
		unfinished := 0
		for t := 0; t < nreal; t++ {
			if finished(t) {
				continue
			}
			unfinished++
			if r.stat[t].kind == c11Blk {
				nblocked++
				blockedNames[progs[t][r.stat[t].pc].name]++
				continue
			}
			alts = append(alts, c11Label{t: t})
		}
		for _, c := range blockedNames {
			if c >= 2 {
				res.ambiguous = true
			}
		}
		if res.ambiguous {
			// two transactions wait for the same lock: which one gets it is the Go runtime's
			// choice; the schedule is cut here (last step dropped)
			res.sched = res.sched[:len(res.sched)-1]
			res.obs = res.obs[:len(res.obs)-1]
			break
		}
		if unfinished > 0 && len(alts) > 0 {
			for i, nm := range envLeft {
				dup := false
				for _, x := range envLeft[:i] {
					if x == nm {
						dup = true
					}
				}
				if !dup {
					alts = append(alts, c11Label{del: true, t: nm})
				}
			}
		}
		if len(alts) == 0 {
			res.deadlock = unfinished > 0
			break
		}
		k := choose(step, alts)
		l := alts[k]
		res.choices = append(res.choices, alts)
		res.taken = append(res.taken, l)
		if l.del {
			for i, nm := range envLeft {
				if nm == l.t {
					envLeft = append(envLeft[:i:i], envLeft[i+1:]...)
					break
				}
			}
		}
		runErr = doStep(l)
		step++
	}
	// probe: only when every transaction has committed or aborted
	probed := false
	if runErr == nil && cfg.probe && !res.deadlock && !res.ambiguous {
		probed = true
		p := n - 1
		for !finished(p) && r.stat[p].kind != c11Blk {
			if runErr = doStep(c11Label{t: p}); runErr != nil {
				break
			}
		}
	}
	_ = probed
	// ---- clean-up: nothing may stay behind
	for t := 0; t < n; t++ {
		if r.stat[t].kind == c11Blk {
			r.skipCommit[t] = true
		}
	}
	r.abort = true
	for t := 0; t < n; t++ {
		close(r.release[t])
	}
	done := make(chan struct{})
	go func() { r.exitWG.Wait(); close(done) }()
	for round := 0; ; round++ {
		select {
		case <-done:
			return res, runErr
		case <-time.After(2 * time.Millisecond):
		}
		// some transaction is blocked for good (mutual wait of writers, or a lock whose owner
		// forgot it): every other goroutine has left, no read lock is held any more, so every
		// element lock that is still held belongs to a transaction that will never call Commit
		// (it skips it in abort mode) -- open them until everybody has left
		allQuiet := true
		for t := 0; t < n; t++ {
			if !r.exited[t].Load() && !c11IsLockWait(c11GoState(r.gid[t])) {
				allQuiet = false
			}
		}
		if allQuiet {
			r.lateWake.Store(true)
			for p := range r.elemPtrs {
				mu := (*sync.RWMutex)(unsafe.Add(p, r.muOff))
				if mu.TryLock() {
					mu.Unlock()
				} else {
					mu.Unlock()
				}
			}
		}
		if round > 500 {
			c11Leaked++
			return res, runErr
		}
	}
}

var c11Leaked int

// ---------------------------------------------------------------- printing
func (l c11Label) coq() string {
	if l.del {
		return fmt.Sprintf("D %d", l.t)
	}
	return fmt.Sprintf("T %d", l.t)
}

func (l c11Label) String() string {
	if l.del {
		return "release(" + c11Names[l.t] + ")"
	}
	return fmt.Sprintf("T%d", l.t)
}

func c11ObsCoq(o c11Obs) string {
	var ss []string
	for _, s := range o.stats {
		switch s.kind {
		case c11Idle:
			var rs []string
			for _, b := range s.rets {
				rs = append(rs, cBool(b))
			}
			ss = append(ss, fmt.Sprintf("SIdle %d %s", s.pc, cList(rs)))
		case c11In:
			ss = append(ss, fmt.Sprintf("SIn %d %d", s.pc, s.elem))
		default:
			ss = append(ss, fmt.Sprintf("SBlk %d", s.pc))
		}
	}
	var ms []string
	for _, p := range o.mp {
		ms = append(ms, fmt.Sprintf("(%d,%d)", p[0], p[1]))
	}
	return "(" + cList(ss) + "," + cList(ms) + ")"
}

func c11CaseCoq(cfg c11Cfg, res *c11Result) string {
	progs := append([][]c11Op{}, cfg.progs...)
	if cfg.probe {
		progs = append(progs, c11ProbeProg(c11NamesOf(cfg)))
	}
	var ls, os []string
	for _, l := range res.sched {
		ls = append(ls, l.coq())
	}
	for _, o := range res.obs {
		os = append(os, c11ObsCoq(o))
	}
	tag := "NoF6"
	if res.tag {
		tag = "F6pre"
	}
	return fmt.Sprintf("CSched %s %s %s %s %s %s", tag, cZ(cfg.limit), cBool(cfg.probe), c11ProgsCoq(progs), cList(ls), cList(os))
}

// ---------------------------------------------------------------- generation
func c11Acc(name int, ro bool, oc int) c11Op { return c11Op{name: name, ro: ro, oc: oc} }

// a program: accesses followed by Commit(fail) with fail = some access is to fail (what shard.go does)
func c11Prog(acc ...c11Op) []c11Op {
	fail := false
	for _, a := range acc {
		if a.oc != c11OK {
			fail = true
		}
	}
	return append(append([]c11Op{}, acc...), c11Op{commit: true, fail: fail})
}

func c11Alphabet(names int) []c11Op {
	var al []c11Op
	for n := 0; n < names; n++ {
		for _, ro := range []bool{false, true} {
			for oc := 0; oc < 3; oc++ {
				al = append(al, c11Acc(n, ro, oc))
			}
		}
	}
	return al
}

// all programs of length 1..maxLen
func c11AllProgs(maxLen int) [][]c11Op {
	al := c11Alphabet(2)
	var out [][]c11Op
	for _, a := range al {
		out = append(out, c11Prog(a))
	}
	if maxLen >= 2 {
		for _, a := range al {
			for _, b := range al {
				out = append(out, c11Prog(a, b))
			}
		}
	}
	return out
}

// enumerate every interleaving of cfg (depth-first, re-executing from scratch); stop after budget
func c11Enumerate(cfg c11Cfg, budget int, visit func(*c11Result)) (int, bool, error) {
	var prefix []c11Label
	count := 0
	for {
		pf := prefix
		res, err := c11Exec(cfg, func(step int, alts []c11Label) int {
			if step < len(pf) {
				for i, a := range alts {
					if a == pf[step] {
						return i
					}
				}
				// the real code is deterministic along a forced schedule; a prefix that cannot be
				// replayed would be a harness error
				panic(fmt.Sprintf("c11: prefix not replayable at step %d", step))
			}
			return 0
		})
		if err != nil {
			return count, false, err
		}
		visit(res)
		count++
		if count >= budget {
			return count, false, nil
		}
		i := len(res.choices) - 1
		for ; i >= 0; i-- {
			alts := res.choices[i]
			idx := -1
			for k, a := range alts {
				if a == res.taken[i] {
					idx = k
				}
			}
			if idx+1 < len(alts) {
				prefix = append(append([]c11Label{}, res.taken[:i]...), alts[idx+1])
				break
			}
		}
		if i < 0 {
			return count, true, nil
		}
	}
}

// the curated scenarios: the witnesses of the theorems and of the known finding
func c11Scenarios() []c11Cfg {
	W := func(n int) c11Op { return c11Acc(n, false, c11OK) }
	R := func(n int) c11Op { return c11Acc(n, true, c11OK) }
	Wf := func(n int) c11Op { return c11Acc(n, false, c11CbFail) }
	Rf := func(n int) c11Op { return c11Acc(n, true, c11CbFail) }
	Rc := func(n int) c11Op { return c11Acc(n, true, c11ConsFail) }
	Wc := func(n int) c11Op { return c11Acc(n, false, c11ConsFail) }
	const A, B = 0, 1
	var out []c11Cfg
	add := func(kind string, limit int64, envs []int, progs ...[]c11Op) {
		out = append(out, c11Cfg{limit: limit, progs: progs, envs: envs, probe: true, kind: kind})
	}
	// F6: W-write(A) . release(A) . R-register(A') . W-commit . R2-read(A')
	add("f6-release", -1, []int{A}, c11Prog(W(A)), c11Prog(R(A)))
	add("f6-release-3", -1, []int{A}, c11Prog(W(A)), c11Prog(R(A)), c11Prog(R(A)))
	// F6 through checkAndPrune: limit 1, the writer's own second name evicts its first
	add("f6-prune-own", 1, nil, c11Prog(W(A), W(B)), c11Prog(R(A)))
	add("f6-prune-other", 1, nil, c11Prog(W(A)), c11Prog(R(B)), c11Prog(R(A)))
	// F6 through the error path of a reader on a private copy
	add("f6-reader-fails", -1, nil, c11Prog(W(A)), c11Prog(Rf(A)), c11Prog(R(A)))
	// F6 through a scrapped element handed to a waiting writer
	add("f6-scrap-writer", -1, nil, c11Prog(Wf(A)), c11Prog(W(A), W(A)), c11Prog(R(A)))
	add("f6-scrap-pending", -1, nil, c11Prog(Rf(A)), c11Prog(W(A), W(A)), c11Prog(R(A)))
	add("f6-limit0-clear", 1, []int{A}, c11Prog(W(A), W(A)), c11Prog(R(A)))
	// cross writers (deadlock outside the progress clause)
	add("cross-writers", -1, nil, c11Prog(W(A), W(B)), c11Prog(W(B), W(A)))
	// writer announced while a reader holds the lock; later readers get private copies
	add("pending-writer", -1, nil, c11Prog(R(A)), c11Prog(W(A)), c11Prog(R(A)))
	add("writer-reader", -1, nil, c11Prog(W(A), R(A)), c11Prog(R(A), R(A)))
	add("abort", -1, nil, append(c11Prog(W(A), W(B))[:2], c11Op{commit: true, fail: true}), c11Prog(R(A), R(B)))
	add("fail-then", -1, nil, c11Prog(Wf(A), W(B)), c11Prog(W(B), R(A)))
	add("cons-fail", -1, nil, c11Prog(Wc(A), R(A)), c11Prog(Rc(A), W(A)))
	add("cons-fail-private", -1, nil, c11Prog(W(A)), c11Prog(Rc(A), R(A)))
	add("limit0", 0, nil, c11Prog(W(A), R(A)), c11Prog(R(A), W(A)))
	add("limit1", 1, nil, c11Prog(R(A), R(B)), c11Prog(R(B), R(A)))
	add("limit1-w", 1, nil, c11Prog(W(A), R(B)), c11Prog(R(A)))
	return out
}

// index of the Commit of a program (its length if there is none)
func c11CommitIdx(p []c11Op) int {
	for i, o := range p {
		if o.commit {
			return i
		}
	}
	return len(p)
}

// configurations with accesses AFTER the Commit of the same transaction (the straggler goroutine of an
// operation that has already returned, fix 1944012): earlier access none / read / write same name / write
// other name, Commit(false) and Commit(true), late access read or write on A or B
func c11LateCfgs() (alone []c11Cfg, paired []c11Cfg) {
	const A, B = 0, 1
	earlier := [][]c11Op{nil, {c11Acc(A, true, c11OK)}, {c11Acc(A, false, c11OK)}, {c11Acc(B, false, c11OK)}, {c11Acc(A, false, c11CbFail)}}
	late := []c11Op{c11Acc(A, false, c11OK), c11Acc(B, false, c11OK), c11Acc(A, true, c11OK), c11Acc(B, true, c11OK)}
	for _, e := range earlier {
		for _, fl := range []bool{false, true} {
			for _, l := range late {
				p := append(append([]c11Op{}, e...), c11Op{commit: true, fail: fl}, l)
				for _, lim := range []int64{-1, 0, 1} {
					alone = append(alone, c11Cfg{limit: lim, progs: [][]c11Op{p}, probe: true, kind: "late"})
				}
				paired = append(paired, c11Cfg{limit: -1, progs: [][]c11Op{p, c11Prog(c11Acc(A, false, c11OK))}, probe: true, kind: "late-pair"})
				// two late accesses: the second one meets what the first one left behind
				p2 := append(append([]c11Op{}, p...), c11Acc(A, false, c11OK))
				paired = append(paired, c11Cfg{limit: -1, progs: [][]c11Op{p2, c11Prog(c11Acc(B, true, c11OK))}, probe: true, kind: "late-pair"})
			}
		}
	}
	return
}

func c11RandProg(r *rand.Rand, maxLen int) []c11Op {
	n := 1 + r.IntN(maxLen)
	var acc []c11Op
	for i := 0; i < n; i++ {
		oc := c11OK
		switch r.IntN(8) {
		case 0:
			oc = c11CbFail
		case 1:
			oc = c11ConsFail
		}
		acc = append(acc, c11Acc(r.IntN(2), r.IntN(2) == 0, oc))
	}
	p := c11Prog(acc...)
	if r.IntN(10) == 0 {
		p[len(p)-1].fail = true // abort for a reason outside the cache (storage error)
	}
	if r.IntN(5) == 0 {
		// accesses that arrive after the Commit of their own transaction
		for k := 1 + r.IntN(2); k > 0; k-- {
			p = append(p, c11Acc(r.IntN(2), r.IntN(3) == 0, c11OK))
		}
	}
	return p
}

type c11Out struct {
	files     []*caseFile
	n         int
	distinct  map[string]bool
	hist      map[string]int
	rc        *runCtx
	knownSeen int
}

func (o *c11Out) emit(cfg c11Cfg, res *c11Result) {
	if len(res.sched) == 0 {
		return
	}
	term := c11CaseCoq(cfg, res)
	if o.distinct[term] {
		o.hist["duplicate schedules (not emitted)"]++
		return
	}
	o.distinct[term] = true
	o.files[o.n%len(o.files)].Add(term)
	o.n++
	o.hist[fmt.Sprintf("limit=%d", cfg.limit)]++
	o.hist[fmt.Sprintf("transactions=%d", len(cfg.progs))]++
	o.hist["kind="+cfg.kind]++
	if res.deadlock {
		o.hist["ends with a writer blocked for good (mutual wait of uncommitted writers, or behind a lock its owner lost after a Release)"]++
	}
	if res.ambiguous {
		o.hist["cut: two transactions wait for one lock"]++
	}
	if res.blockedSeen {
		o.hist["some access blocked"]++
	}
	if res.tag {
		o.hist["entry of a write-held cache left the map / writer on a temporary copy (tag F6pre; harmless since 2d185e4)"]++
	}
	if len(cfg.envs) > 0 {
		o.hist["with Release events"]++
	}
	for _, p := range cfg.progs {
		if c11CommitIdx(p) < len(p)-1 {
			o.hist["with accesses after the Commit of their transaction"]++
			break
		}
	}
	if res.tag && len(o.rc.samples) < 2 || len(o.rc.samples) < 1 {
		var ls []string
		for _, l := range res.sched {
			ls = append(ls, l.String())
		}
		o.rc.addSample(map[string]any{"kind": cfg.kind, "limit": cfg.limit, "programs": c11ProgsCoq(cfg.progs), "schedule": strings.Join(ls, " "), "f6pre": res.tag})
	}
}

func runC11(rc *runCtx) error {
	t0 := time.Now()
	nfiles := 8
	if rc.thorough() {
		nfiles = 16
	}
	out := &c11Out{distinct: map[string]bool{}, hist: map[string]int{}, rc: rc}
	for i := 0; i < nfiles; i++ {
		cf, err := newCaseFile(filepath.Join(rc.outDir, fmt.Sprintf("cases_C11_%02d.v", i)), []string{"Model_C11", "Run_C11"}, "c11case")
		if err != nil {
			return err
		}
		out.files = append(out.files, cf)
	}
	visit := func(cfg c11Cfg) func(*c11Result) { return func(res *c11Result) { out.emit(cfg, res) } }
	exhaustive := map[string]any{}
	// ---- 1. curated scenarios, every interleaving (bounded per scenario in the quick tier)
	perScenario := 150
	if rc.thorough() {
		perScenario = 2000
	}
	rs := newRng(rc.seed, 111)
	for _, cfg := range c11Scenarios() {
		var got []*c11Result
		cnt, complete, err := c11Enumerate(cfg, perScenario, func(res *c11Result) { got = append(got, res) })
		if err != nil {
			return fmt.Errorf("scenario %s: %w", cfg.kind, err)
		}
		if complete {
			for _, res := range got {
				out.emit(cfg, res)
			}
		} else {
			// too many interleavings for this tier: a seeded sample instead of a prefix of the enumeration
			for k := 0; k < perScenario; k++ {
				res, err := c11Exec(cfg, func(step int, alts []c11Label) int { return rs.IntN(len(alts)) })
				if err != nil {
					return fmt.Errorf("scenario %s: %w", cfg.kind, err)
				}
				out.emit(cfg, res)
			}
		}
		exhaustive["scenario "+cfg.kind] = map[string]any{"schedules": cnt, "all_interleavings": complete}
		if complete {
			out.hist["scenarios with ALL interleavings enumerated"]++
		} else {
			out.hist["scenarios sampled (more interleavings than the tier's budget)"]++
		}
	}
	// ---- 2. two transactions, every interleaving
	//   quick: programs of length 1 (all pairs up to swapping the transactions), limits -1 0 1
	//   thorough: programs of length <= 2
	limits := []int64{-1, 0, 1}
	maxLen := 1
	if rc.thorough() {
		maxLen = 2
	}
	progs := c11AllProgs(maxLen)
	budget2 := 2200
	if rc.thorough() {
		budget2 = 30000
	}
	if rc.n > 0 {
		budget2 = rc.n
	}
	pairs, pairsDone, sched2 := 0, 0, 0
	r2 := newRng(rc.seed, 11)
	type pr struct{ i, j int }
	var all []pr
	for i := range progs {
		for j := i; j < len(progs); j++ {
			// name symmetry: the first access of the first program is on A
			if progs[i][0].name != 0 {
				continue
			}
			all = append(all, pr{i, j})
		}
	}
	pairs = len(all) * len(limits)
	// seeded order, so that a budget cut leaves a seeded sample
	r2.Shuffle(len(all), func(a, b int) { all[a], all[b] = all[b], all[a] })
	complete2 := true
outer:
	for _, p := range all {
		for _, lim := range limits {
			if sched2 >= budget2 {
				complete2 = false
				break outer
			}
			cfg := c11Cfg{limit: lim, progs: [][]c11Op{progs[p.i], progs[p.j]}, probe: true, kind: "pair"}
			cnt, _, err := c11Enumerate(cfg, 1000000, visit(cfg))
			if err != nil {
				return err
			}
			sched2 += cnt
			pairsDone++
		}
	}
	out.hist[fmt.Sprintf("two-transaction configurations (program pair x limit, programs of length <= %d) with ALL interleavings enumerated", maxLen)] = pairsDone
	out.hist["two-transaction configurations in the stated bound"] = pairs
	exhaustive["two transactions"] = map[string]any{"program_length_max": maxLen, "configurations": pairs, "configurations_done": pairsDone,
		"schedules": sched2, "all_configurations": complete2}
	// ---- 2b. accesses after the Commit of the same transaction
	lateAlone, latePaired := c11LateCfgs()
	nlate := 0
	for _, cfg := range lateAlone {
		cnt, _, err := c11Enumerate(cfg, 1000000, visit(cfg))
		if err != nil {
			return err
		}
		nlate += cnt
	}
	perLate := 12
	if rc.thorough() {
		perLate = 1000000
	}
	rl := newRng(rc.seed, 1112)
	for _, cfg := range latePaired {
		var got []*c11Result
		cnt, complete, err := c11Enumerate(cfg, perLate, func(res *c11Result) { got = append(got, res) })
		if err != nil {
			return err
		}
		if complete {
			for _, res := range got {
				out.emit(cfg, res)
			}
			nlate += cnt
		} else {
			for k := 0; k < perLate; k++ {
				res, err := c11Exec(cfg, func(step int, alts []c11Label) int { return rl.IntN(len(alts)) })
				if err != nil {
					return err
				}
				out.emit(cfg, res)
				nlate++
			}
		}
	}
	exhaustive["accesses after Commit"] = map[string]any{"configurations": len(lateAlone) + len(latePaired), "schedules": nlate}
	// ---- 3. sampled: two and three transactions with programs of length <= 2, random interleavings,
	//         Release events at random moments
	r3 := newRng(rc.seed, 1111)
	nsample := 900
	if rc.thorough() {
		nsample = 10000
	}
	for k := 0; k < nsample; k++ {
		ntx := 2 + r3.IntN(2)
		cfg := c11Cfg{limit: limits[r3.IntN(3)], probe: true, kind: "sampled"}
		if r3.IntN(4) == 0 {
			cfg.limit = 2
		}
		for t := 0; t < ntx; t++ {
			cfg.progs = append(cfg.progs, c11RandProg(r3, 2))
		}
		if r3.IntN(3) == 0 {
			cfg.envs = append(cfg.envs, r3.IntN(2))
			if r3.IntN(3) == 0 {
				cfg.envs = append(cfg.envs, r3.IntN(2))
			}
		}
		res, err := c11Exec(cfg, func(step int, alts []c11Label) int { return r3.IntN(len(alts)) })
		if err != nil {
			return err
		}
		out.emit(cfg, res)
	}
	// ---- 4. thorough: three transactions exhaustively (programs of length 1), up to a budget
	if rc.thorough() {
		p1 := c11AllProgs(1)
		budget3 := 20000
		s3, cfgs3 := 0, 0
		complete3 := true
	outer3:
		for i := range p1 {
			if p1[i][0].name != 0 {
				continue
			}
			for j := i; j < len(p1); j++ {
				for k := j; k < len(p1); k++ {
					for _, lim := range limits {
						if s3 >= budget3 {
							complete3 = false
							break outer3
						}
						cfg := c11Cfg{limit: lim, progs: [][]c11Op{p1[i], p1[j], p1[k]}, probe: true, kind: "triple"}
						cnt, _, err := c11Enumerate(cfg, 1000000, visit(cfg))
						if err != nil {
							return err
						}
						s3 += cnt
						cfgs3++
					}
				}
			}
		}
		exhaustive["three transactions"] = map[string]any{"program_length_max": 1, "configurations_done": cfgs3, "schedules": s3, "all_configurations": complete3}
	}
	for _, cf := range out.files {
		if err := cf.Close("bad"); err != nil {
			return err
		}
	}
	rc.stats["evaluations"] = out.n
	rc.stats["distinct"] = len(out.distinct)
	rc.stats["histogram"] = out.hist
	rc.stats["seed"] = rc.seed
	rc.stats["exhaustive"] = exhaustive
	rc.stats["goroutines_left_behind"] = c11Leaked
	rc.stats["harness_wall_s"] = time.Since(t0).Seconds()
	return nil
}
