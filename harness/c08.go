package main

func init() { subcmds["c08"] = runC08 }

// C08: every history is executed under all five store / cache configurations.
func runC08(rc *runCtx) error {
	n := rc.n
	if n == 0 {
		n = 24
		if rc.thorough() {
			n = 600
		}
	}
	nfiles := 8
	if rc.thorough() {
		nfiles = 32
	}
	return runHistoriesX(rc, "c08", n, []int{0, 1, 2, 3, 4, 5}, true, nfiles,
		[]string{"Bytes", "Pack", "Value", "Obs", "Run_C08"}, "hist", "C08")
}
