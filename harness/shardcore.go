package main

// Shared shard-level machinery: document trees with exact Go typing, index
// schemas, Gallina printing of observations (types of coq/Obs.v).

import (
	"fmt"
	"math"
	"sort"
	"strconv"
	"strings"

	"github.com/google/uuid"
	"github.com/semafind/semadb/models"
	"github.com/vmihailenco/msgpack/v5"
)

// ---------------------------------------------------------------- values

type vkind int

const (
	kNil vkind = iota
	kBool
	kInt
	kF64
	kF32
	kStr
	kArr
	kMap
)

type Val struct {
	K    vkind
	B    bool
	I    int64
	Bits uint64 // float64 or float32 bit pattern
	S    string
	A    []Val
	M    []KV // sorted by key when canonical
}

type KV struct {
	K string
	V Val
}

func vInt(i int64) Val     { return Val{K: kInt, I: i} }
func vF64(f float64) Val   { return Val{K: kF64, Bits: math.Float64bits(f)} }
func vF64b(b uint64) Val   { return Val{K: kF64, Bits: b} }
func vF32(f float32) Val   { return Val{K: kF32, Bits: uint64(math.Float32bits(f))} }
func vStr(s string) Val    { return Val{K: kStr, S: s} }
func vBool(b bool) Val     { return Val{K: kBool, B: b} }
func vNil() Val            { return Val{K: kNil} }
func vArr(a ...Val) Val    { return Val{K: kArr, A: a} }
func vMap(kvs ...KV) Val   { return Val{K: kMap, M: kvs} }
func vVec(xs []float32) Val {
	a := make([]Val, len(xs))
	for i, x := range xs {
		a[i] = vF32(x)
	}
	return Val{K: kArr, A: a}
}
func vStrs(ss ...string) Val {
	a := make([]Val, len(ss))
	for i, s := range ss {
		a[i] = vStr(s)
	}
	return Val{K: kArr, A: a}
}

// toGo builds the Go value with the exact dynamic types semadb's shard level expects.
func (v Val) toGo() any {
	switch v.K {
	case kNil:
		return nil
	case kBool:
		return v.B
	case kInt:
		return v.I
	case kF64:
		return math.Float64frombits(v.Bits)
	case kF32:
		return math.Float32frombits(uint32(v.Bits))
	case kStr:
		return v.S
	case kArr:
		allF32 := len(v.A) > 0
		for _, e := range v.A {
			if e.K != kF32 {
				allF32 = false
			}
		}
		if allF32 {
			out := make([]float32, len(v.A))
			for i, e := range v.A {
				out[i] = math.Float32frombits(uint32(e.Bits))
			}
			return out
		}
		out := make([]any, len(v.A))
		for i, e := range v.A {
			out[i] = e.toGo()
		}
		return out
	case kMap:
		out := make(map[string]any, len(v.M))
		for _, kv := range v.M {
			out[kv.K] = kv.V.toGo()
		}
		return out
	}
	return nil
}

// fromGo canonicalises a decoded msgpack value (map keys sorted).
func fromGo(x any) Val {
	switch t := x.(type) {
	case nil:
		return vNil()
	case bool:
		return vBool(t)
	case int64:
		return vInt(t)
	case int8:
		return vInt(int64(t))
	case int16:
		return vInt(int64(t))
	case int32:
		return vInt(int64(t))
	case int:
		return vInt(int64(t))
	case uint8:
		return vInt(int64(t))
	case uint16:
		return vInt(int64(t))
	case uint32:
		return vInt(int64(t))
	case uint64:
		return vInt(int64(t))
	case float64:
		return vF64(t)
	case float32:
		return vF32(t)
	case string:
		return vStr(t)
	case []byte:
		return vStr(string(t))
	case []any:
		a := make([]Val, len(t))
		for i, e := range t {
			a[i] = fromGo(e)
		}
		return Val{K: kArr, A: a}
	case []float32:
		return vVec(t)
	case []string:
		return vStrs(t...)
	case map[string]any:
		keys := make([]string, 0, len(t))
		for k := range t {
			keys = append(keys, k)
		}
		sort.Strings(keys)
		m := make([]KV, len(keys))
		for i, k := range keys {
			m[i] = KV{k, fromGo(t[k])}
		}
		return Val{K: kMap, M: m}
	case models.PointAsMap:
		return fromGo(map[string]any(t))
	}
	return vStr(fmt.Sprintf("<<unknown %T>>", x))
}

func decodeDoc(data []byte) (Val, error) {
	if len(data) == 0 {
		return Val{K: kMap}, nil
	}
	var m map[string]any
	if err := msgpack.Unmarshal(data, &m); err != nil {
		return Val{}, err
	}
	return fromGo(m), nil
}

func (v Val) get(k string) (Val, bool) {
	for _, kv := range v.M {
		if kv.K == k {
			return kv.V, true
		}
	}
	return Val{}, false
}

// getPath resolves a dotted property path through nested maps
func (v Val) getPath(path string) (Val, bool) {
	cur := v
	for _, p := range strings.Split(path, ".") {
		if cur.K != kMap {
			return Val{}, false
		}
		nx, ok := cur.get(p)
		if !ok {
			return Val{}, false
		}
		cur = nx
	}
	return cur, true
}

// ---------------------------------------------------------------- compact Gallina

// pB prints a byte string as `(B n [w;...]%uint63)`, 7 bytes per primitive int.
func pB(b []byte) string {
	if len(b) == 0 {
		return "[]"
	}
	var sb strings.Builder
	sb.WriteString("(B ")
	sb.WriteString(strconv.Itoa(len(b)))
	sb.WriteString(" [")
	for i := 0; i < len(b); i += 7 {
		var w uint64
		for j := 0; j < 7 && i+j < len(b); j++ {
			w |= uint64(b[i+j]) << (8 * uint(j))
		}
		if i > 0 {
			sb.WriteByte(';')
		}
		sb.WriteString(strconv.FormatUint(w, 10))
	}
	sb.WriteString("]%uint63)")
	return sb.String()
}
func pS(s string) string { return pB([]byte(s)) }

// pN prints an N; large values through primitive ints.
func pN(v uint64) string {
	if v < 65536 {
		return strconv.FormatUint(v, 10)
	}
	if v < 1<<62 {
		return "(n63 " + strconv.FormatUint(v, 10) + ")"
	}
	return fmt.Sprintf("(n64 %d %d)", v>>32, v&0xFFFFFFFF)
}

func pZ(v int64) string {
	if v >= 0 && v < 65536 {
		return strconv.FormatInt(v, 10) + "%Z"
	}
	if v > -65536 && v < 0 {
		return "(" + strconv.FormatInt(v, 10) + ")%Z"
	}
	if v >= 0 {
		return "(Z.of_N " + pN(uint64(v)) + ")"
	}
	if v == math.MinInt64 {
		return "(- Z.of_N (n64 2147483648 0))%Z"
	}
	return "(- Z.of_N " + pN(uint64(-v)) + ")%Z"
}

func pOptN(p *uint64) string {
	if p == nil {
		return "None"
	}
	return "(Some " + pN(*p) + ")"
}

func pList(items []string) string { return "[" + strings.Join(items, "; ") + "]" }

func (v Val) coq() string {
	switch v.K {
	case kNil:
		return "VNil"
	case kBool:
		return "(VBool " + cBool(v.B) + ")"
	case kInt:
		return "(VInt " + pZ(v.I) + ")"
	case kF64:
		return "(VF64 " + pN(v.Bits) + ")"
	case kF32:
		return "(VF32 " + pN(v.Bits) + ")"
	case kStr:
		return "(VStr " + pS(v.S) + ")"
	case kArr:
		items := make([]string, len(v.A))
		for i, e := range v.A {
			items[i] = e.coq()
		}
		return "(VArr " + pList(items) + ")"
	case kMap:
		return "(VMap " + v.docCoq() + ")"
	}
	return "VNil"
}

// docCoq prints the entries of a map value as a `doc`.
func (v Val) docCoq() string {
	items := make([]string, len(v.M))
	for i, kv := range v.M {
		items[i] = "(" + pS(kv.K) + ", " + kv.V.coq() + ")"
	}
	return pList(items)
}

func pUUID(u uuid.UUID) string { return pB(u[:]) }

// ---------------------------------------------------------------- schema

type idxKind int

const (
	ixInt idxKind = iota
	ixFloat
	ixStr
	ixStrArr
	ixText
	ixFlat
	ixVamana
)

type quantSpec struct {
	kind    int // 0 none 1 binary fixed 2 binary learned 3 product
	thr     float32
	trigger int
	metric  string
	ncent   int
	nsub    int
}

type idxSpec struct {
	path     string
	kind     idxKind
	caseSens bool
	dim      int
	metric   string
	search   int
	degree   int
	alpha    float32
	q        quantSpec
}

var metricCode = map[string]uint64{"euclidean": 0, "cosine": 1, "dot": 2, "hamming": 3, "jaccard": 4, "haversine": 5}

func (q quantSpec) coq() string {
	switch q.kind {
	case 1:
		return fmt.Sprintf("(QBinFixed %s %d)", pN(uint64(math.Float32bits(q.thr))), metricCode[q.metric])
	case 2:
		return fmt.Sprintf("(QBinLearned %d %d)", q.trigger, metricCode[q.metric])
	case 3:
		return fmt.Sprintf("(QProduct %d %d %d)", q.ncent, q.nsub, q.trigger)
	}
	return "QNone"
}

func (q quantSpec) model() *models.Quantizer {
	switch q.kind {
	case 1:
		t := q.thr
		return &models.Quantizer{Type: models.QuantizerBinary, Binary: &models.BinaryQuantizerParamaters{Threshold: &t, DistanceMetric: q.metric}}
	case 2:
		return &models.Quantizer{Type: models.QuantizerBinary, Binary: &models.BinaryQuantizerParamaters{TriggerThreshold: q.trigger, DistanceMetric: q.metric}}
	case 3:
		return &models.Quantizer{Type: models.QuantizerProduct, Product: &models.ProductQuantizerParameters{NumCentroids: q.ncent, NumSubVectors: q.nsub, TriggerThreshold: q.trigger}}
	}
	return nil
}

func (ix idxSpec) coq() string {
	switch ix.kind {
	case ixInt:
		return "IInt"
	case ixFloat:
		return "IFloat"
	case ixStr:
		return "(IStr " + cBool(ix.caseSens) + ")"
	case ixStrArr:
		return "(IStrArr " + cBool(ix.caseSens) + ")"
	case ixText:
		return "IText"
	case ixFlat:
		return fmt.Sprintf("(IFlat %d %d %s)", ix.dim, metricCode[ix.metric], ix.q.coq())
	case ixVamana:
		return fmt.Sprintf("(IVamana %d %d %d %d %s %s)", ix.dim, metricCode[ix.metric], ix.search, ix.degree, pN(uint64(math.Float32bits(ix.alpha))), ix.q.coq())
	}
	return "IInt"
}

type schemaSpec []idxSpec

func (s schemaSpec) coq() string {
	items := make([]string, len(s))
	for i, ix := range s {
		items[i] = "(" + pS(ix.path) + ", " + ix.coq() + ")"
	}
	return pList(items)
}

func (s schemaSpec) model() models.IndexSchema {
	out := models.IndexSchema{}
	for _, ix := range s {
		switch ix.kind {
		case ixInt:
			out[ix.path] = models.IndexSchemaValue{Type: models.IndexTypeInteger}
		case ixFloat:
			out[ix.path] = models.IndexSchemaValue{Type: models.IndexTypeFloat}
		case ixStr:
			out[ix.path] = models.IndexSchemaValue{Type: models.IndexTypeString, String: &models.IndexStringParameters{CaseSensitive: ix.caseSens}}
		case ixStrArr:
			out[ix.path] = models.IndexSchemaValue{Type: models.IndexTypeStringArray, StringArray: &models.IndexStringArrayParameters{IndexStringParameters: models.IndexStringParameters{CaseSensitive: ix.caseSens}}}
		case ixText:
			out[ix.path] = models.IndexSchemaValue{Type: models.IndexTypeText, Text: &models.IndexTextParameters{Analyser: "standard"}}
		case ixFlat:
			out[ix.path] = models.IndexSchemaValue{Type: models.IndexTypeVectorFlat, VectorFlat: &models.IndexVectorFlatParameters{VectorSize: uint(ix.dim), DistanceMetric: ix.metric, Quantizer: ix.q.model()}}
		case ixVamana:
			out[ix.path] = models.IndexSchemaValue{Type: models.IndexTypeVectorVamana, VectorVamana: &models.IndexVectorVamanaParameters{VectorSize: uint(ix.dim), DistanceMetric: ix.metric, SearchSize: ix.search, DegreeBound: ix.degree, Alpha: ix.alpha, Quantizer: ix.q.model()}}
		}
	}
	return out
}

// ---------------------------------------------------------------- batches

type pointSpec struct {
	id  uuid.UUID
	doc Val // kMap
}

type batchSpec struct {
	note   int // extra note recorded with the step (XNote), 0 = none
	kind   int // 0 insert 1 update 2 delete
	points []pointSpec
	ids    []uuid.UUID
}

func (b batchSpec) coq() string {
	switch b.kind {
	case 0, 1:
		items := make([]string, len(b.points))
		for i, p := range b.points {
			items[i] = "(" + pUUID(p.id) + ", " + p.doc.docCoq() + ")"
		}
		if b.kind == 0 {
			return "(BInsert " + pList(items) + ")"
		}
		return "(BUpdate " + pList(items) + ")"
	default:
		items := make([]string, len(b.ids))
		for i, id := range b.ids {
			items[i] = pUUID(id)
		}
		return "(BDelete " + pList(items) + ")"
	}
}

func (p pointSpec) model() (models.Point, error) {
	data, err := msgpack.Marshal(p.doc.toGo())
	if err != nil {
		return models.Point{}, err
	}
	return models.Point{Id: p.id, Data: data}, nil
}

// error kind of a write error (coq/Obs.v bout)
func errKind(err error) uint64 {
	s := err.Error()
	switch {
	case strings.Contains(s, "duplicate point id"):
		return 1
	case strings.Contains(s, "point already exists"):
		return 2
	case strings.Contains(s, "point size exceeds limit"):
		return 3
	case strings.Contains(s, "could not cast"), strings.Contains(s, "expected vector got"), strings.Contains(s, "could not query field"),
		strings.Contains(s, "expected float32 got"), strings.Contains(s, "expected string got"), strings.Contains(s, "got int"), strings.Contains(s, "got float"),
		strings.Contains(s, "unsupported code"), strings.Contains(s, "invalid syntax"), strings.Contains(s, "key required"):
		return 4
	}
	return 9
}

// ---------------------------------------------------------------- queries

type querySpec struct {
	kind    string // and or ideq idany int float str strarr text flat vamana
	subs    []querySpec
	ids     []uuid.UUID
	prop    string
	op      int
	iv, ie  int64
	fv, fe  uint64
	sv, se  string
	svs     []string
	terms   []string // analysed query terms (text)
	vec     []float32
	search  int
	limit   int
	weight  *float32
	filter  *querySpec
}

var opNames = []string{"equals", "notEquals", "startsWith", "greaterThan", "greaterThanOrEquals", "lessThan", "lessThanOrEquals", "inRange", "containsAll", "containsAny"}

func pWeight(w *float32) string {
	if w == nil {
		return "None"
	}
	return "(Some " + pN(uint64(math.Float32bits(*w))) + ")"
}

func pVec(v []float32) string {
	items := make([]string, len(v))
	for i, x := range v {
		items[i] = pN(uint64(math.Float32bits(x)))
	}
	return pList(items)
}

func (q querySpec) coq() string {
	filt := "None"
	if q.filter != nil {
		filt = "(Some " + q.filter.coq() + ")"
	}
	switch q.kind {
	case "and", "or":
		items := make([]string, len(q.subs))
		for i, s := range q.subs {
			items[i] = s.coq()
		}
		if q.kind == "and" {
			return "(QAnd " + pList(items) + ")"
		}
		return "(QOr " + pList(items) + ")"
	case "ideq":
		return "(QIdEq " + pUUID(q.ids[0]) + ")"
	case "idany":
		items := make([]string, len(q.ids))
		for i, id := range q.ids {
			items[i] = pUUID(id)
		}
		return "(QIdAny " + pList(items) + ")"
	case "int":
		return fmt.Sprintf("(QInt %s %d %s %s)", pS(q.prop), q.op, pZ(q.iv), pZ(q.ie))
	case "float":
		return fmt.Sprintf("(QFloat %s %d %s %s)", pS(q.prop), q.op, pN(q.fv), pN(q.fe))
	case "str":
		return fmt.Sprintf("(QStr %s %d %s %s)", pS(q.prop), q.op, pS(q.sv), pS(q.se))
	case "strarr":
		items := make([]string, len(q.svs))
		for i, s := range q.svs {
			items[i] = pS(s)
		}
		return fmt.Sprintf("(QStrArr %s %d %s)", pS(q.prop), q.op, pList(items))
	case "text":
		items := make([]string, len(q.terms))
		for i, s := range q.terms {
			items[i] = pS(s)
		}
		return fmt.Sprintf("(QText %s %d %s %d %s %s)", pS(q.prop), q.op, pList(items), q.limit, pWeight(q.weight), filt)
	case "flat":
		return fmt.Sprintf("(QFlat %s %s %d %s %s)", pS(q.prop), pVec(q.vec), q.limit, pWeight(q.weight), filt)
	case "vamana":
		return fmt.Sprintf("(QVamana %s %s %d %d %s %s)", pS(q.prop), pVec(q.vec), q.search, q.limit, pWeight(q.weight), filt)
	}
	return "(QOr [])"
}

func (q querySpec) model() models.Query {
	var filt *models.Query
	if q.filter != nil {
		f := q.filter.model()
		filt = &f
	}
	switch q.kind {
	case "and", "or":
		subs := make([]models.Query, len(q.subs))
		for i, s := range q.subs {
			subs[i] = s.model()
		}
		if q.kind == "and" {
			return models.Query{Property: "_and", And: subs}
		}
		return models.Query{Property: "_or", Or: subs}
	case "ideq":
		return models.Query{Property: "_id", String: &models.SearchStringOptions{Value: q.ids[0].String(), Operator: models.OperatorEquals}}
	case "idany":
		vs := make([]string, len(q.ids))
		for i, id := range q.ids {
			vs[i] = id.String()
		}
		return models.Query{Property: "_id", StringArray: &models.SearchStringArrayOptions{Value: vs, Operator: models.OperatorContainsAny}}
	case "int":
		return models.Query{Property: q.prop, Integer: &models.SearchIntegerOptions{Value: q.iv, EndValue: q.ie, Operator: opNames[q.op]}}
	case "float":
		return models.Query{Property: q.prop, Float: &models.SearchFloatOptions{Value: math.Float64frombits(q.fv), EndValue: math.Float64frombits(q.fe), Operator: opNames[q.op]}}
	case "str":
		return models.Query{Property: q.prop, String: &models.SearchStringOptions{Value: q.sv, EndValue: q.se, Operator: opNames[q.op]}}
	case "strarr":
		return models.Query{Property: q.prop, StringArray: &models.SearchStringArrayOptions{Value: append([]string{}, q.svs...), Operator: opNames[q.op]}}
	case "text":
		return models.Query{Property: q.prop, Text: &models.SearchTextOptions{Value: q.sv, Operator: opNames[q.op], Limit: q.limit, Weight: q.weight, Filter: filt}}
	case "flat":
		return models.Query{Property: q.prop, VectorFlat: &models.SearchVectorFlatOptions{Vector: q.vec, Operator: "near", Limit: q.limit, Weight: q.weight, Filter: filt}}
	case "vamana":
		return models.Query{Property: q.prop, VectorVamana: &models.SearchVectorVamanaOptions{Vector: q.vec, Operator: "near", SearchSize: q.search, Limit: q.limit, Weight: q.weight, Filter: filt}}
	}
	return models.Query{}
}

type sortSpec struct {
	prop string
	desc bool
}

type requestSpec struct {
	q      querySpec
	sel    []string
	sort   []sortSpec
	offset int
	limit  int
}

func (r requestSpec) coq() string {
	sel := make([]string, len(r.sel))
	for i, s := range r.sel {
		sel[i] = pS(s)
	}
	so := make([]string, len(r.sort))
	for i, s := range r.sort {
		so[i] = "(" + pS(s.prop) + ", " + cBool(s.desc) + ")"
	}
	return fmt.Sprintf("(mkReq %s %s %s %d %d)", r.q.coq(), pList(sel), pList(so), r.offset, r.limit)
}

func (r requestSpec) model() models.SearchRequest {
	so := make([]models.SortOption, len(r.sort))
	for i, s := range r.sort {
		so[i] = models.SortOption{Property: s.prop, Descending: s.desc}
	}
	return models.SearchRequest{Query: r.q.model(), Select: append([]string{}, r.sel...), Sort: so, Offset: r.offset, Limit: r.limit}
}

// result rows
func pRows(res []models.SearchResult, decodeData bool) (string, error) {
	items := make([]string, len(res))
	for i, r := range res {
		doc := "None"
		if r.DecodedData != nil {
			doc = "(Some " + fromGo(map[string]any(r.DecodedData)).docCoq() + ")"
		} else if decodeData && r.Data != nil {
			v, err := decodeDoc(r.Data)
			if err != nil {
				return "", err
			}
			doc = "(Some " + v.docCoq() + ")"
		}
		dist, score := "None", "None"
		if r.Distance != nil {
			dist = "(Some " + pN(uint64(math.Float32bits(*r.Distance))) + ")"
		}
		if r.Score != nil {
			score = "(Some " + pN(uint64(math.Float32bits(*r.Score))) + ")"
		}
		items[i] = fmt.Sprintf("(mkRow %s %s %s %s %s)", pUUID(r.Id), doc, dist, score, pN(uint64(math.Float32bits(r.HybridScore))))
	}
	return "(QRows " + pList(items) + ")", nil
}

func pOptB(b []byte) string {
	if b == nil {
		return "None"
	}
	return "(Some " + pB(b) + ")"
}

func pListB(bs [][]byte) string {
	items := make([]string, len(bs))
	for i, b := range bs {
		items[i] = pB(b)
	}
	return pList(items)
}
