package main

func init() { subcmds["c01"] = runC01 }

func runC01(rc *runCtx) error {
	n := rc.n
	if n == 0 {
		n = 120
		if rc.thorough() {
			n = 2400
		}
	}
	nfiles := 8
	if rc.thorough() {
		nfiles = 32
	}
	return runHistories(rc, "c01", n, []int{0, 0, 1, 2, 3, 4}, nfiles,
		[]string{"Bytes", "Pack", "Value", "Obs", "Run_C01"}, "hist", "C01")
}
